#!/usr/bin/env python3
import sys,json,collections,glob
rs=[]
for f in sorted(glob.glob('/verif/mutation/results-*.jsonl')):
    rs+=[json.loads(l) for l in open(f)]
print(len(rs), collections.Counter(r['verdict'] for r in rs))
print(collections.Counter(r.get('check') for r in rs if r['verdict']=='killed-by-check'))
skip=set(l.strip() for l in open('/verif/mutation/triaged.txt')) if len(sys.argv)>1 and sys.argv[1]=='new' else set()
for r in rs:
    if r['verdict']=='survived' and r['id'] not in skip:
        print(r['id'],r['file'],r['line'],r['op'],'|',r['old'][:90],'=>',r['new'][:90], [c for c,rc in r['tried'] if rc!=0], r.get('timeouts',''))
