#!/bin/bash
# run_all.sh <patch.diff> [tier]: applies the patch to /repo, runs every registered check, undoes the patch.
# Prints the checks that did not exit 0 (for a benign patch: none expected).
set -u
P="$1"; TIER="${2:-quick}"
git -C /repo apply "$P" || { echo "patch does not apply"; exit 2; }
trap 'git -C /repo checkout -- .' EXIT
cd /verif
bad=0
for i in C01 C02 C03 C04 C05 C06 C07 C08 C09 C10 C11 C12 C13 C14 C15 C16 C17 C18 C19 C20; do
  ./check $i $TIER > /tmp/run_all.$i.out 2>&1; rc=$?
  if [ $rc -ne 0 ]; then bad=$((bad+1)); echo "  $i exit=$rc: $(grep -m1 -A3 '^--- violation\|MACHINERY' /tmp/run_all.$i.out | head -4 | cut -c1-220 | tr '\n' ' ')"; fi
done
echo "checks not passing: $bad"
