#!/bin/bash
# run_some.sh <patch.diff> <check ids...>: like run_all.sh, restricted to the named checks (quick tier).
set -u
P="$1"; shift
git -C /repo apply "$P" || { echo "patch does not apply"; exit 2; }
trap 'git -C /repo checkout -- .' EXIT
cd /verif
bad=0
for i in "$@"; do
  ./check $i quick > /tmp/run_some.$i.out 2>&1; rc=$?
  if [ $rc -ne 0 ]; then bad=$((bad+1)); echo "  $i exit=$rc: $(grep -m1 -A3 '^--- violation\|MACHINERY' /tmp/run_some.$i.out | head -4 | cut -c1-220 | tr '\n' ' ')"; fi
done
echo "checks not passing: $bad"
