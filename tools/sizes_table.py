#!/usr/bin/env python3
"""Rewrites the quick-tier rows of DESIGN.md 13.6 from evidence/C*.json (evaluations / states / wall)."""
import json, re
s=open('/verif/DESIGN.md').read()
def fmt(n): return f'{n:,}'
for i in range(1,21):
    pid=f'C{i:02d}'
    e=json.load(open(f'/verif/evidence/{pid}.json'))
    if e.get('tier')!='quick': continue
    c=e['coverage']
    new=f"| {pid} | {fmt(c['evaluations'])} / {fmt(c['states'])} / {e['wall_s']:.1f} s"
    def rep(m):
        tail=m.group(2)
        extra=' (+ 13 s build step of the generated structs)' if pid=='C12' else ''
        return new+extra+' |'+tail
    s=re.sub(r'^\| '+pid+r' \| [^|]*\|(?P<x>)(.*)$', rep, s, count=1, flags=re.M)
open('/verif/DESIGN.md','w').write(s)
print('ok')
