#!/bin/bash
# try_seed.sh <patch.diff> <property> [tier]: applies the patch to /repo, runs the check, undoes the patch.
set -u
P="$1"; ID="$2"; TIER="${3:-quick}"
git -C /repo apply "$P" || { echo "patch does not apply"; exit 2; }
trap 'git -C /repo checkout -- .' EXIT
cd /verif && ./check "$ID" "$TIER" > /tmp/try_seed.out 2>&1; rc=$?
echo "exit=$rc violations=$(grep -c '^VIOLATION' /tmp/try_seed.out)"
grep -A7 '^--- violation' /tmp/try_seed.out | head -${4:-10} | cut -c1-300
exit 0
