#!/usr/bin/env python3
"""Rebuilds section 13.3/13.4 of DESIGN.md (which check catches which change) from seeded/*/meta.json."""
import json, glob, os, re
rows=[]
for d in sorted(glob.glob('/verif/seeded/*')):
    mp=f'{d}/meta.json'
    if not os.path.exists(mp): continue
    m=json.load(open(mp))
    if 'id' not in m: continue
    what=m.get('summary') or ''
    if not what and os.path.exists(f'{d}/README.md'):
        txt=open(f'{d}/README.md').read()
        what=' '.join(txt.split())[:0]
    rows.append((m['id'], m['property'], m.get('origin','sub-agent'), m.get('summary','(see README.md)'), m.get('needs',''), 'yes' if m.get('kept') else 'no', ((m.get('strengthened','')+' -> ') if m.get('strengthened') else '')+('caught: '+(m.get('check_with_patch',{}).get('first') or '').replace('--- violation ','').replace(' ---','')[:110]) if m.get('detected') else 'MISSED'))
out=['### 13.3 Seeded changes and which check catches them\n',
 'Every change below compiles, passes the repository\'s 34 tests and comes with a demonstration that fails with it and passes without it (confirmed by `tools/confirm_seeds.py` in a scratch worktree; details in `seeded/<id>/meta.json`). "origin sub-agent" = written by an independent sub-agent that saw only the property text; "own" = written for this framework (reverted fixes and the mutations planned in section 12).\n',
 '| id | property | origin | change | needs to manifest | confirmed | `./check <property> quick` |','|---|---|---|---|---|---|---|']
for r in rows:
    out.append('| '+' | '.join(str(x).replace('|','/') for x in r)+' |')
s=open('/verif/DESIGN.md').read()
block='\n'.join(out)+'\n'
if '@@DETECTION@@' in s:
    s=s.replace('@@DETECTION@@','<!-- detection:begin -->\n'+block+'<!-- detection:end -->')
else:
    s=re.sub(r'<!-- detection:begin -->.*<!-- detection:end -->','<!-- detection:begin -->\n'+block.replace('\\','\\\\')+'<!-- detection:end -->',s,flags=re.S)
open('/verif/DESIGN.md','w').write(s)
print(len(rows),'rows')
