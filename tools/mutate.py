#!/usr/bin/env python3
"""Systematic mutation sweep of davisriedel/zvt against the registered checks (detection evidence,
not part of any registered command).

  mutate.py gen  > mutants.jsonl          enumerate mutants (deterministic)
  mutate.py run <mutants.jsonl> <lane> <lanes> <out.jsonl>
                                          lane k of n: works in /tmp/mut/lane<k> (a scratch worktree of
                                          /repo plus a copy of the harness whose path dependencies point
                                          at it), never in /repo or /verif

For every mutant: the repository's own suite decides first (build failure -> invalid, a failing
test -> killed-by-suite: out of scope, the existing tests already catch it). Survivors of the suite
are run against the quick tier of the checks relevant to the mutated crate, in order, until the first
exit 1 with a VIOLATION line (killed-by-check). Survivors of both are listed for triage
(equivalent / outside every property / blind spot).
"""
import json, os, re, subprocess, sys, shutil, time, hashlib

FILES = {
    'zvt_builder/src/lib.rs': 'builder', 'zvt_builder/src/encoding.rs': 'builder', 'zvt_builder/src/length.rs': 'builder',
    'zvt_derive/src/lib.rs': 'builder',
    'zvt/src/io.rs': 'seq', 'zvt/src/sequences.rs': 'seq', 'zvt/src/feig/sequences.rs': 'seq',
    'zvt/src/packets.rs': 'packets', 'zvt/src/packets/tlv.rs': 'packets', 'zvt/src/constants.rs': 'packets',
    'zvt/src/feig/packets/mod.rs': 'packets', 'zvt/src/feig/packets/tlv.rs': 'packets',
    'zvt_feig_terminal/src/feig.rs': 'client', 'zvt_feig_terminal/src/stream.rs': 'client', 'zvt_feig_terminal/src/config.rs': 'client',
}
ORDER = {
    'client': ['C18', 'C08', 'C09', 'C20', 'C10', 'C19', 'C07'],
    'seq': ['C04', 'C15', 'C05', 'C06', 'C11', 'C18', 'C08', 'C09', 'C20', 'C10', 'C19', 'C07'],
    'packets': ['C03', 'C01', 'C13', 'C14', 'C15', 'C17', 'C02', 'C05', 'C06', 'C11', 'C18', 'C08', 'C20', 'C19', 'C07'],
    'builder': ['C16', 'C17', 'C13', 'C04', 'C03', 'C01', 'C15', 'C14', 'C02', 'C05', 'C06', 'C11', 'C18', 'C08', 'C20', 'C12'],
}

# (name, regex, replacement) applied to one line at a time; every match position is one mutant
OPS = [
    ('le->lt', r' <= ', ' < '), ('lt->le', r' < ', ' <= '), ('ge->gt', r' >= ', ' > '), ('gt->ge', r' > ', ' >= '),
    ('eq->ne', r' == ', ' != '), ('ne->eq', r' != ', ' == '),
    ('and->or', r' && ', ' || '), ('or->and', r' \|\| ', ' && '),
    ('plus->minus', r' \+ ', ' - '), ('minus->plus', r' - ', ' + '), ('mul->div', r' \* ', ' / '), ('div->mul', r' / ', ' * '), ('rem->div', r' % ', ' / '),
    ('pluseq->minuseq', r' \+= ', ' -= '), ('minuseq->pluseq', r' -= ', ' += '),
    ('drop-question', r'\)\?;', ');'), ('drop-question-await', r'\.await\?;', '.await;'),
    ('break->continue', r'\bbreak;', 'continue;'), ('continue->break', r'\bcontinue;', 'break;'),
    ('true->false', r'\btrue\b', 'false'), ('false->true', r'\bfalse\b', 'true'),
    ('max->min', r'\.max\(', '.min('), ('min->max', r'\.min\(', '.max('),
    ('is_empty-negate', r'(\b[\w\.]+)\.is_empty\(\)', r'!\1.is_empty()'), ('is_some->is_none', r'\.is_some\(\)', '.is_none()'), ('is_none->is_some', r'\.is_none\(\)', '.is_some()'),
    ('is_err->is_ok', r'\.is_err\(\)', '.is_ok()'), ('is_ok->is_err', r'\.is_ok\(\)', '.is_err()'),
    ('shl->shr', r' << ', ' >> '), ('shr->shl', r' >> ', ' << '), ('bitand->bitor', r' & ', ' | '), ('bitor->bitand', r' \| ', ' & '),
    ('le_bytes->be_bytes', r'_le_bytes', '_be_bytes'), ('be_bytes->le_bytes', r'_be_bytes', '_le_bytes'),
    ('some->none', r'= Some\(([^()]*)\);', '= None;'),
    ('unwrap_or_default', r'\.ok_or\(([^()]|\([^()]*\))*\)\?', '.unwrap_or_default()'),
]
OPS2 = [
    ('lt->gt', r' < ', ' > '), ('gt->lt', r' > ', ' < '), ('le->ge', r' <= ', ' >= '), ('ge->le', r' >= ', ' <= '),
    ('drop-not', r'\bif !', 'if '), ('add-not', r'\bif (?!let\b|!)', 'if !'), ('while-drop-not', r'\bwhile !', 'while '),
    ('some->none-expr', r'\bSome\(([a-z_][\w\.]*)\)', 'None'), ('ok-unit-early', r'\breturn Err\(', 'return Ok(Default::default()); Err('),
    ('and->first', r'(\bif\s+)([^&|{]+) && ([^&|{]+) \{', r'\1\2 {'), ('and->second', r'(\bif\s+)([^&|{]+) && ([^&|{]+) \{', r'\1\3 {'),
    ('or->first', r'(\bif\s+)([^&|{]+) \|\| ([^&|{]+) \{', r'\1\2 {'), ('or->second', r'(\bif\s+)([^&|{]+) \|\| ([^&|{]+) \{', r'\1\3 {'),
    ('saturating->wrapping', r'saturating_sub', 'wrapping_sub'), ('checked_mul->wrapping', r'\.checked_mul\(([^()]*)\)\s*\.ok_or\([^()]*(\([^()]*\))?[^()]*\)\?', r'.wrapping_mul(\1)'),
    ('to_lowercase-drop', r'\.to_lowercase\(\)', '.to_string()'), ('to_uppercase-drop', r'\.to_uppercase\(\)', '.to_string()'),
    ('trim-drop', r'\.trim_end_matches\(([^()]*)\)', ''), ('first->last', r'\.first\(\)', '.last()'), ('last->first', r'\.last\(\)', '.first()'),
    ('insert->noop-get', r'\.remove\(', '.get('), ('contains_key-negate', r'(\b[\w\.]+)\.contains_key\(', r'!\1.contains_key('),
    ('take->skip', r'\.take\(', '.skip('), ('rev-drop', r'\.rev\(\)', ''),
]
NUM = re.compile(r'(?<![\w.])(0x[0-9a-fA-F]+|\d+)(?![\w.]|\s*\.\.)')


def code_lines(path, text):
    """(index, line) of lines eligible for mutation: outside #[cfg(test)] modules, not comments, not logging"""
    out = []
    lines = text.split('\n')
    in_test = False
    for i, l in enumerate(lines):
        s = l.strip()
        if s.startswith('#[cfg(test)]'):
            in_test = True
        if in_test:
            continue
        if not s or s.startswith('//') or s.startswith('use ') or s.startswith('#![') or s.startswith('*') or s.startswith('/*'):
            continue
        if re.match(r'^(log::)?(info|debug|warn|error|trace)!', s):
            continue
        out.append((i, l))
    return out


def gen(round2=False):
    muts = []
    for f, group in FILES.items():
        text = open('/repo/' + f).read()
        attr_seen = 0
        for i, l in code_lines(f, text):
            s = l.strip()
            is_attr = s.startswith('#[')
            if is_attr:
                # layout attributes: a deterministic third of them, numbers and kinds
                if not re.search(r'zvt_bmp|zvt_tlv|zvt_control_field', s):
                    continue
                attr_seen += 1
                if attr_seen % 3 != (1 if round2 else 0):
                    continue
                cands = []
                for m in NUM.finditer(l):
                    g = m.group(1)
                    v = int(g, 16) if g.startswith('0x') else int(g)
                    nv = v + 1
                    rep = hex(nv) if g.startswith('0x') else str(nv)
                    cands.append(('attr-number+1', m.start(), m.end(), rep))
                for a, b in (('length::Llv', 'length::Lllv'), ('length::Lllv', 'length::Llv'), ('length::Tlv', 'length::Llv'), ('encoding::Bcd', 'encoding::BigEndian'), ('encoding::BigEndian', 'encoding::Default'), ('encoding::Hex', 'encoding::Default')):
                    for m in re.finditer(re.escape(a) + r'\b', l):
                        cands.append((f'attr-{a}->{b}', m.start(), m.end(), b))
                for op, a, b, rep in cands:
                    muts.append({'file': f, 'group': group, 'line': i + 1, 'op': op, 'old': l, 'new': l[:a] + rep + l[b:]})
                continue
            code = l.split('//')[0]
            for op, rx, rep in (OPS2 if round2 else OPS):
                for m in re.finditer(rx, code):
                    new = code[:m.start()] + m.expand(rep) + code[m.end():]
                    if new != code:
                        muts.append({'file': f, 'group': group, 'line': i + 1, 'op': op, 'old': l, 'new': new})
            # numeric literals in code: n -> n + 1 (0 -> 1)
            if not re.search(r'\b(const|static)\b.*=\s*".*"', code):
                for m in NUM.finditer(code):
                    # skip generic parameters like Fixed<2> only when inside a type position of a `length =` attribute (handled above)
                    g = m.group(1)
                    v = int(g, 16) if g.startswith('0x') else int(g)
                    nv = v - 1 if round2 else v + 1
                    if nv < 0:
                        continue
                    rep = hex(nv) if g.startswith('0x') else str(nv)
                    new = code[:m.start()] + rep + code[m.end():]
                    muts.append({'file': f, 'group': group, 'line': i + 1, 'op': 'number-1' if round2 else 'number+1', 'old': l, 'new': new})
            # statement deletion: a plain call / assignment statement on its own line
            if not round2 and re.match(r'^\s*[a-z_][\w\.]*(\([^;]*\)|\s*=\s*[^;]+|\.[a-z_]+\([^;]*\))\s*;\s*$', code) and not re.match(r'^\s*(let|return|break|continue|use|pub|const|static|type)\b', code):
                muts.append({'file': f, 'group': group, 'line': i + 1, 'op': 'delete-statement', 'old': l, 'new': ''})
    # identity
    for m in muts:
        m['id'] = hashlib.sha1((m['file'] + str(m['line']) + m['op'] + m['new']).encode()).hexdigest()[:10]
    seen = set()
    out = []
    for m in muts:
        if m['id'] in seen:
            continue
        seen.add(m['id'])
        out.append(m)
    for m in out:
        print(json.dumps(m))
    print(f'{len(out)} mutants', file=sys.stderr)


def sh(cmd, cwd, env, timeout):
    try:
        p = subprocess.run(cmd, shell=True, cwd=cwd, env=env, capture_output=True, text=True, timeout=timeout)
        return p.returncode, p.stdout + p.stderr
    except subprocess.TimeoutExpired as e:
        return 124, (e.stdout or b'').decode(errors='replace') if isinstance(e.stdout, bytes) else (e.stdout or '')


def setup_lane(k):
    lane = f'/tmp/mut/lane{k}'
    os.makedirs('/tmp/mut', exist_ok=True)
    if not os.path.isdir(lane + '/repo'):
        subprocess.run(f'git -C /repo worktree add --detach {lane}/repo HEAD', shell=True, check=True, capture_output=True)
    subprocess.run('git checkout -- . && git clean -fdq', shell=True, cwd=lane + '/repo')
    v = lane + '/verif'
    os.makedirs(v, exist_ok=True)
    # fresh copy of the harness sources (keep the lane's target directory)
    for d in ('vcore', 'zvtmc', 'genstructs'):
        shutil.rmtree(f'{v}/harness/{d}', ignore_errors=True)
    os.makedirs(v + '/harness', exist_ok=True)
    for d in ('vcore', 'zvtmc', 'genstructs'):
        shutil.copytree(f'/verif/harness/{d}', f'{v}/harness/{d}')
    for f in ('Cargo.toml', 'Cargo.lock'):
        shutil.copy(f'/verif/harness/{f}', f'{v}/harness/{f}')
    if os.path.isdir('/verif/harness/.cargo'):
        shutil.copytree('/verif/harness/.cargo', v + '/harness/.cargo', dirs_exist_ok=True)
    for d in ('zvtmc', 'genstructs'):
        p = f'{v}/harness/{d}/Cargo.toml'
        t = open(p).read().replace('"/repo/', f'"{lane}/repo/')
        open(p, 'w').write(t)
    shutil.copy('/verif/check', v + '/check')
    shutil.copy('/verif/known_findings.json', v + '/known_findings.json')
    os.makedirs(v + '/evidence', exist_ok=True)
    return lane


def run(path, k, n, outp):
    muts = [json.loads(l) for l in open(path)]
    mine = [m for i, m in enumerate(muts) if i % n == k]
    done = set()
    if os.path.exists(outp):
        for l in open(outp):
            try:
                done.add(json.loads(l)['id'])
            except Exception:
                pass
    lane = setup_lane(k)
    cores = os.cpu_count() or 16
    per = max(1, cores // n)
    cpus = ','.join(str(c) for c in range(k * per, k * per + per))
    env = {**os.environ, 'CARGO_NET_OFFLINE': 'true', 'RUST_BACKTRACE': '0', 'VERIF_DIR': lane + '/verif', 'CARGO_BUILD_JOBS': str(per)}
    env.pop('CARGO_TARGET_DIR', None)
    out = open(outp, 'a')
    for m in mine:
        if m['id'] in done:
            continue
        fp = f"{lane}/repo/{m['file']}"
        orig = open(fp).read()
        lines = orig.split('\n')
        if lines[m['line'] - 1] != m['old']:
            print('stale mutant', m['id'], file=sys.stderr)
            continue
        lines[m['line'] - 1] = m['new']
        open(fp, 'w').write('\n'.join(lines))
        t0 = time.time()
        res = {'id': m['id'], 'file': m['file'], 'line': m['line'], 'op': m['op'], 'old': m['old'].strip(), 'new': m['new'].strip()}
        try:
            rc, o = sh(f'taskset -c {cpus} cargo test --workspace --no-fail-fast --offline', lane + '/repo', env, 900)
            passed = sum(int(x) for x in re.findall(r'test result: \w+\. (\d+) passed', o))
            failed = sum(int(x) for x in re.findall(r'(\d+) failed;', o))
            if rc == 124:
                res['verdict'] = 'killed-by-suite'
                res['detail'] = 'suite timed out'
            elif 'error: could not compile' in o or 'error[' in o or (rc != 0 and passed + failed == 0):
                res['verdict'] = 'invalid'
            elif failed > 0 or rc != 0:
                res['verdict'] = 'killed-by-suite'
                res['detail'] = f'{failed} failed'
            else:
                res['suite'] = passed
                verdict = 'survived'
                tried = []
                for c in ORDER[m['group']]:
                    rc, o = sh(f'taskset -c {cpus} ./check {c} quick', lane + '/verif', env, 1500)
                    tried.append((c, rc))
                    if rc == 1 and 'VIOLATION property=' in o:
                        verdict = 'killed-by-check'
                        res['check'] = c
                        first = [l for l in o.splitlines() if l.startswith('--- violation')][:1]
                        res['first'] = first[0][:200] if first else ''
                        break
                    if rc == 124:
                        res.setdefault('timeouts', []).append(c)
                res['verdict'] = verdict
                res['tried'] = tried
        finally:
            open(fp, 'w').write(orig)
        res['secs'] = round(time.time() - t0, 1)
        out.write(json.dumps(res) + '\n')
        out.flush()
        print(k, res['verdict'], res.get('check', ''), m['file'], m['line'], m['op'], res['secs'], flush=True)


if __name__ == '__main__':
    if sys.argv[1] == 'gen':
        gen()
    elif sys.argv[1] == 'gen2':
        gen(True)
    elif sys.argv[1] == 'run':
        run(sys.argv[2], int(sys.argv[3]), int(sys.argv[4]), sys.argv[5])
