#!/usr/bin/env python3
"""Confirms every seeded defect under /verif/seeded in a scratch worktree of /repo:
 (1) the patch applies and the repository's own suite still passes (34 tests),
 (2) the demonstration fails with the patch and passes without it,
 (3) the registered check of the property reports a VIOLATION with the patch applied to /repo
     (applied and undone straight afterwards) and passes again without it.
Writes seeded/<id>/meta.json. Usage: confirm_seeds.py [ids...]"""
import json, os, re, subprocess, sys, glob, shutil, time
WT='/tmp/wt/confirm'; TGT='/tmp/wt/confirm-target'
def sh(cmd, cwd=None, timeout=3600):
    env={**os.environ,'CARGO_NET_OFFLINE':'true','RUST_BACKTRACE':'0'}
    if cwd==WT:
        env['CARGO_TARGET_DIR']=TGT      # scratch builds only; ./check must use the harness' own target directory
    p=subprocess.run(cmd, shell=True, cwd=cwd, capture_output=True, text=True, timeout=timeout, env=env)
    return p.returncode, p.stdout+p.stderr
def counts(out):
    ok=sum(int(m) for m in re.findall(r'test result: \w+\. (\d+) passed', out)); bad=sum(int(m) for m in re.findall(r'(\d+) failed;', out)); return ok,bad
CHECKS_ONLY='--checks-only' in sys.argv
NO_CHECKS='--no-checks' in sys.argv
sys.argv=[a for a in sys.argv if a not in ('--checks-only','--no-checks')]
ids=sys.argv[1:] or sorted(os.path.basename(d) for d in glob.glob('/verif/seeded/C*'))
sh(f'git -C /repo worktree remove --force {WT}'); sh('git -C /repo worktree prune')
rc,out=sh(f'git -C /repo worktree add --detach {WT} HEAD'); assert rc==0, out
head=subprocess.run('git -C /repo rev-parse --short HEAD',shell=True,capture_output=True,text=True).stdout.strip()
for sid in ids:
    d=f'/verif/seeded/{sid}'; prop=sid.split('-')[0]
    patch=f'{d}/patch.diff'
    meta={'id':sid,'property':prop,'repo_commit':head,'confirmed_at':time.strftime('%Y-%m-%dT%H:%M:%SZ',time.gmtime())}
    if CHECKS_ONLY and os.path.exists(f'{d}/meta.json'):
        meta=json.load(open(f'{d}/meta.json')); res=meta.get('demonstration',{})
        rc,out=sh(f'git -C /repo apply {patch}'); assert rc==0, out
        try:
            rc,out=sh(f'./check {prop} quick', cwd='/verif', timeout=1800)
            viol=[l for l in out.splitlines() if l.startswith('VIOLATION')]
            first=[l for l in out.splitlines() if l.startswith('--- violation')][:1]
            meta['check_with_patch']={'cmd':f'./check {prop} quick','exit':rc,'violation_lines':len(viol),'first':first[0][:300] if first else None}
        finally:
            sh('git -C /repo checkout -- .')
        rc,out=sh(f'./check {prop} quick', cwd='/verif', timeout=1800)
        meta['check_without_patch']={'exit':rc}
        meta['detected']=meta['check_with_patch']['exit']==1 and meta['check_without_patch']['exit']==0
        json.dump(meta,open(f'{d}/meta.json','w'),indent=1)
        print(sid,'kept' if meta.get('kept') else 'NOT CONFIRMED','detected' if meta['detected'] else 'MISSED', flush=True)
        continue
    sh('git checkout -- . && git clean -fdq', cwd=WT)
    rc,out=sh(f'git apply {patch}', cwd=WT); meta['patch_applies']=(rc==0)
    if rc!=0:
        meta['error']=out[-400:]; json.dump(meta,open(f'{d}/meta.json','w'),indent=1); print(sid,'PATCH DOES NOT APPLY'); continue
    rc,out=sh('cargo test --workspace --no-fail-fast --offline', cwd=WT); ok,bad=counts(out)
    meta['suite_with_patch']={'passed':ok,'failed':bad,'cmd':'cargo test --workspace --no-fail-fast --offline'}
    demos=[f for f in glob.glob(f'{d}/demo/*.rs')]
    res={}
    if demos:
        demo=demos[0]; stem=os.path.basename(demo)[:-3]
        src=open(demo).read()
        crate='zvt_feig_terminal' if 'zvt_feig_terminal' in src or 'zvt_verif' in src else ('zvt_builder' if (prop in ('C16','C17') and 'use zvt::' not in src and 'zvt::' not in src) else 'zvt')
        feat=' --features zvt_verif' if crate=='zvt_feig_terminal' else ''
        cmd=f'cargo test -p {crate}{feat} --test {stem} --offline'
        def run_demo():
            shutil.copy(demo, f'{WT}/{crate}/tests/' if os.path.isdir(f'{WT}/{crate}/tests') else (os.makedirs(f'{WT}/{crate}/tests') or f'{WT}/{crate}/tests/'))
            if prop=='C10' or 'start_paused' in src or 'test-util' in open(f'{d}/demo/RUN.md').read():
                t=open(f'{WT}/zvt_feig_terminal/Cargo.toml').read()
                if 'test-util' not in t:
                    open(f'{WT}/zvt_feig_terminal/Cargo.toml','a').write('tokio = { version = "1.32.0", features = ["test-util", "io-util"] }\n')
            rc,out=sh(cmd, cwd=WT); ok,bad=counts(out); return rc,ok,bad,out
        rc1,ok1,bad1,out1=run_demo()
        res['with_patch']={'exit':rc1,'passed':ok1,'failed':bad1}
        sh('git checkout -- . && git clean -fdq', cwd=WT)
        rc2,ok2,bad2,out2=run_demo()
        res['without_patch']={'exit':rc2,'passed':ok2,'failed':bad2}
        res['cmd']=cmd; res['file']=os.path.basename(demo)
        sh('git checkout -- . && git clean -fdq', cwd=WT)
    meta['demonstration']=res
    if NO_CHECKS:
        meta['kept']=bool(meta['patch_applies'] and meta['suite_with_patch']['passed']==34 and meta['suite_with_patch']['failed']==0 and res.get('with_patch',{}).get('exit',0)!=0 and res.get('without_patch',{}).get('exit',1)==0)
        json.dump(meta,open(f'{d}/meta.json','w'),indent=1)
        print(sid,'kept' if meta['kept'] else 'NOT CONFIRMED','(checks not run)', meta['suite_with_patch'], res.get('with_patch'), res.get('without_patch'), flush=True)
        continue
    # the registered check against the patch, in /repo itself, undone straight afterwards
    rc,out=sh(f'git -C /repo apply {patch}'); assert rc==0, out
    try:
        rc,out=sh(f'./check {prop} quick', cwd='/verif', timeout=1800)
        viol=[l for l in out.splitlines() if l.startswith('VIOLATION')]
        first=[l for l in out.splitlines() if l.startswith('--- violation')][:1]
        meta['check_with_patch']={'cmd':f'./check {prop} quick','exit':rc,'violation_lines':len(viol),'first':first[0][:300] if first else None}
    finally:
        sh('git -C /repo checkout -- .')
    rc,out=sh(f'./check {prop} quick', cwd='/verif', timeout=1800)
    meta['check_without_patch']={'exit':rc}
    meta['kept']=bool(meta['patch_applies'] and meta['suite_with_patch']['passed']==34 and meta['suite_with_patch']['failed']==0 and res.get('with_patch',{}).get('exit',0)!=0 and res.get('without_patch',{}).get('exit',1)==0)
    meta['detected']=meta['check_with_patch']['exit']==1 and meta['check_without_patch']['exit']==0
    json.dump(meta,open(f'{d}/meta.json','w'),indent=1)
    print(sid,'kept' if meta['kept'] else 'NOT CONFIRMED','detected' if meta['detected'] else 'MISSED', meta['suite_with_patch'], res.get('with_patch'), res.get('without_patch'), flush=True)
sh(f'git -C /repo worktree remove --force {WT}'); shutil.rmtree(TGT, ignore_errors=True)
