//! The 17 `Sequence` implementations (+ feig WriteFile) behind one generic runner over a
//! ScriptedStream, and the independent statement of their reply alphabets and final packets
//! (DESIGN.md Appendix B).
use crate::builders as b;
use crate::sim::*;
use futures::StreamExt;
use std::fmt::Debug;
use vcore::codec::*;
use vcore::layout::*;
use vcore::report::guarded;
use vcore::values::*;
use zvt::io::PacketTransport;
use zvt::sequences::Sequence;
use zvt::{encoding, feig, packets, sequences, ZvtSerializer};

#[derive(Clone, Debug, Default)]
pub struct RunLog {
    /// Ok(Debug of the item) / Err(text)
    pub items: Vec<Result<String, String>>,
    pub ended: bool,
    pub blocked: bool,
    /// polls after the end that did not return None
    pub polls_after_end_not_none: usize,
    pub panic: Option<String>,
}

pub fn variant_of(debug: &str) -> &str {
    debug.split('(').next().unwrap_or("")
}

/// Pumps a result stream to its end (or until `stop_after` holds for an item), marking every
/// yielded item in the I/O log of the scripted peer.
pub fn pump<St, T>(stream: &mut St, s: &Scripted, stop_after: Option<&dyn Fn(&str) -> bool>, log: &mut RunLog)
where
    St: futures::Stream<Item = anyhow::Result<T>> + Unpin,
    T: Debug,
{
    let mut guard = 0;
    loop {
        guard += 1;
        if guard > 1_000_000 {
            break;
        }
        let mut fut = Box::pin(stream.next());
        match drive(fut.as_mut()) {
            Driven::Blocked => {
                log.blocked = true;
                s.mark("blocked".into());
                break;
            }
            Driven::Done(None) => {
                s.mark("end".into());
                log.ended = true;
                drop(fut);
                for _ in 0..2 {
                    let mut f2 = Box::pin(stream.next());
                    match drive(f2.as_mut()) {
                        Driven::Done(None) => {}
                        _ => log.polls_after_end_not_none += 1,
                    }
                }
                break;
            }
            Driven::Done(Some(Ok(item))) => {
                let d = format!("{item:?}");
                s.mark(format!("item {d}"));
                let stop = stop_after.map(|f| f(variant_of(&d))).unwrap_or(false);
                log.items.push(Ok(d));
                if stop {
                    s.mark("dropped".into());
                    break;
                }
            }
            Driven::Done(Some(Err(e))) => {
                s.mark("error".into());
                log.items.push(Err(format!("{e:?}")));
            }
        }
    }
}

/// Runs the real sequence against the scripted peer. `stop_after` = drop the stream right after
/// the item for which the predicate holds (a caller that stops consuming at the final packet).
pub fn run_generic<S>(input: &S::Input, s: &Scripted, stop_after: Option<&dyn Fn(&str) -> bool>) -> RunLog
where
    S: Sequence,
    S::Output: Debug,
    encoding::Default: encoding::Encoding<S::Input>,
{
    let mut log = RunLog::default();
    vcore::report::watch_describe(|| {
        let st = s.st.borrow();
        format!("sequence {} against the scripted reply bytes {} (end of stream at {:?})", std::any::type_name::<S>(), vcore::report::hex_short(&st.incoming), st.eof_at)
    });
    let r = guarded(|| {
        let mut l = RunLog::default();
        let mut tr = PacketTransport { source: s.clone() };
        let mut stream = S::into_stream(input, &mut tr);
        pump(&mut stream, s, stop_after, &mut l);
        l
    });
    match r {
        Ok(l) => log = l,
        Err(p) => log.panic = Some(p),
    }
    log
}

pub struct SeqDef {
    pub name: &'static str,
    /// layout-table key of the command
    pub input: &'static str,
    pub reply_enum: &'static str,
    /// final variants; empty = every variant is final (one-reply sequences)
    pub finals: &'static [&'static str],
    /// runs the sequence with the command value `v`
    pub run: fn(&Val, &Scripted, Option<&dyn Fn(&str) -> bool>) -> RunLog,
}

fn dec<T>(table: &Table, key: &str, v: &Val) -> T
where
    T: ZvtSerializer,
    encoding::Default: encoding::Encoding<T>,
{
    let bytes = Codec::new(table).encode(table.get(key), v).expect("command value must be encodable");
    T::zvt_deserialize(&bytes).expect("MACHINERY: cannot construct a command with private fields by decoding").0
}

macro_rules! seq {
    ($name:literal, $input:literal, $en:literal, $finals:expr, $S:ty, $build:expr) => {
        SeqDef {
            name: $name,
            input: $input,
            reply_enum: $en,
            finals: $finals,
            run: |v, s, stop| {
                let input = $build(v);
                run_generic::<$S>(&input, s, stop)
            },
        }
    };
}

pub fn sequences() -> Vec<SeqDef> {
    vec![
        seq!("Registration", "Registration", "RegistrationResponse", &[], sequences::Registration, b::build_Registration),
        seq!("ReadCard", "ReadCard", "ReadCardResponse", &["StatusInformation", "Abort"], sequences::ReadCard, b::build_ReadCard),
        seq!("Initialization", "Initialization", "InitializationResponse", &["CompletionData", "Abort"], sequences::Initialization, b::build_Initialization),
        seq!("SetTerminalId", "SetTerminalId", "SetTerminalIdResponse", &[], sequences::SetTerminalId, b::build_SetTerminalId),
        seq!("ResetTerminal", "ResetTerminal", "ResetTerminalResponse", &[], sequences::ResetTerminal, b::build_ResetTerminal),
        seq!("Diagnosis", "Diagnosis", "DiagnosisResponse", &["CompletionData", "Abort"], sequences::Diagnosis, b::build_Diagnosis),
        seq!("EndOfDay", "EndOfDay", "EndOfDayResponse", &["CompletionData", "Abort"], sequences::EndOfDay, b::build_EndOfDay),
        seq!("Authorization", "Authorization", "AuthorizationResponse", &["CompletionData", "Abort"], sequences::Authorization, b::build_Authorization),
        seq!("Reservation", "Reservation", "AuthorizationResponse", &["CompletionData", "Abort"], sequences::Reservation, b::build_Reservation),
        seq!("PartialReversal", "PartialReversal", "PartialReversalResponse", &["CompletionData", "PartialReversalAbort"], sequences::PartialReversal, b::build_PartialReversal),
        seq!("PreAuthReversal", "PreAuthReversal", "PartialReversalResponse", &["CompletionData", "PartialReversalAbort"], sequences::PreAuthReversal, b::build_PreAuthReversal),
        seq!(
            "PrintSystemConfiguration",
            "PrintSystemConfiguration",
            "PrintSystemConfigurationResponse",
            &["CompletionData"],
            sequences::PrintSystemConfiguration,
            b::build_PrintSystemConfiguration
        ),
        seq!("SelectLanguage", "SelectLanguage", "SelectLanguageResponse", &[], sequences::SelectLanguage, |v: &Val| dec::<packets::SelectLanguage>(&shipped(), "SelectLanguage", v)),
        seq!("StatusEnquiry", "StatusEnquiry", "StatusEnquiryResponse", &["CompletionData"], sequences::StatusEnquiry, |v: &Val| dec::<packets::StatusEnquiry>(&shipped(), "StatusEnquiry", v)),
        seq!("GetSystemInfo", "feig::CVendFunctions", "GetSystemInfoResponse", &[], feig::sequences::GetSystemInfo, b::build_feig_CVendFunctions),
        seq!("FactoryReset", "feig::CVendFunctions", "FactoryResetResponse", &[], feig::sequences::FactoryReset, b::build_feig_CVendFunctions),
        seq!(
            "ChangeHostConfiguration",
            "feig::ChangeConfiguration",
            "ChangeHostConfigurationResponse",
            &[],
            feig::sequences::ChangeHostConfiguration,
            b::build_feig_ChangeConfiguration
        ),
    ]
}

/// One letter of a reply script.
#[derive(Clone, Debug)]
pub struct Letter {
    pub variant: &'static str,
    pub ty: &'static str,
    pub label: String,
    pub bytes: Vec<u8>,
    /// Debug of the item the sequence must yield for it
    pub debug: String,
    pub is_final: bool,
}

/// The reply alphabet of a sequence: every variant with a minimal body, a body of more than 255
/// bytes (where the type has a variable-length field) and a fully populated body.
pub fn letters(table: &Table, def: &SeqDef) -> Vec<Letter> {
    let codec = Codec::new(table);
    let reply = crate::real::reply_table();
    let vars = &reply.iter().find(|(k, _)| *k == def.reply_enum).unwrap().1;
    let mut out = vec![];
    for (variant, tk) in vars {
        let ty = table.get(tk);
        let mut cands: Vec<(String, Val)> = vec![("min".into(), baseline(table, ty))];
        for pick in [0usize, 1] {
            cands.push((format!("full{pick}"), all_present(table, ty, pick, 1)));
        }
        // a body beyond the 254/255 switch of the APDU length (5-byte header), where the type has a
        // variable-length field
        if let Some(path) = variable_leaves(table, ty).first() {
            cands.insert(1, ("big".into(), sized(table, ty, path, 300)));
        }
        let mut got = 0;
        let mut seen: Vec<Vec<u8>> = vec![];
        for (label, v) in cands {
            if got >= 3 {
                break;
            }
            let Some(bytes) = codec.canonical(ty, &v) else { continue };
            if seen.contains(&bytes) {
                continue;
            }
            seen.push(bytes.clone());
            got += 1;
            out.push(Letter {
                variant,
                ty: tk,
                label: format!("{variant}:{label}"),
                debug: format!("{variant}({})", codec.debug_string(ty, &v)),
                bytes,
                is_final: def.finals.is_empty() || def.finals.contains(variant),
            });
        }
    }
    out
}

/// canonical command value of a sequence (everything present where the format allows it)
pub fn command_value(table: &Table, def: &SeqDef) -> (Val, Vec<u8>) {
    let codec = Codec::new(table);
    let ty = table.get(def.input);
    for v in [all_present(table, ty, 1, 1), all_present(table, ty, 0, 1), baseline(table, ty)] {
        if let Some(b) = codec.canonical(ty, &v) {
            return (v, b);
        }
    }
    panic!("no canonical command value for {}", def.name)
}

/// The command value of `command_value` plus further inputs of the sequence: another field
/// assignment, the bare command, and special inputs the protocol defines (receipt number FFFF =
/// "what is pending?" for the reversals).
pub fn command_values(table: &Table, def: &SeqDef) -> Vec<(Val, Vec<u8>)> {
    let codec = Codec::new(table);
    let ty = table.get(def.input);
    let mut out = vec![command_value(table, def)];
    let mut cands = vec![all_present(table, ty, 0, 1), all_present(table, ty, 2, 1), baseline(table, ty)];
    if let Some(i) = ty.fields.iter().position(|f| f.name == "receipt_no" && f.enc == Enc::Rcpt) {
        let mut v = baseline(table, ty);
        v.fields_mut()[i] = if ty.fields[i].wrap == Wrap::Opt { Val::some(Val::Int(0xffff)) } else { Val::Int(0xffff) };
        cands.insert(0, v);
    }
    for v in cands {
        if let Some(b) = codec.canonical(ty, &v) {
            if !out.iter().any(|(_, ob)| *ob == b) {
                out.push((v, b));
            }
        }
    }
    out
}

pub const ACK: [u8; 3] = [0x80, 0x00, 0x00];
