//! C06 - a failed exchange yields exactly one error, then silence.
use crate::c05::render_events;
use crate::seqs::*;
use crate::sim::*;
use crate::util::*;
use serde_json::json;
use std::cell::RefCell;
use std::rc::Rc;
use vcore::codec::*;
use vcore::dbx::Ctx;
use vcore::layout::*;
use vcore::report::*;
use vcore::tree::*;
use vcore::values::*;

#[derive(Clone, Debug)]
pub struct Fault {
    pub label: String,
    /// bytes delivered in place of the expected packet (possibly truncated)
    pub bytes: Vec<u8>,
    /// the stream ends right after these bytes (always true here; kept for the trace)
    pub kind: &'static str,
}

fn frame(c: u8, i: u8, body: &[u8]) -> Vec<u8> {
    let mut p = vec![c, i];
    p.extend(apdu_len(body.len()).unwrap());
    p.extend_from_slice(body);
    p
}

/// malformed variants of one well-formed reply packet which the packet type's own decoder is
/// obliged to reject (checked against the reference decoder before use)
fn malformed(table: &Table, codec: &Codec, l: &Letter) -> Vec<Fault> {
    let ty = table.get(l.ty);
    let mut out = vec![];
    let (c, i) = ty.ctrl.unwrap();
    // empty body where a mandatory positional field is due
    if ty.fields.first().map(|f| f.tag.is_none() && f.wrap == Wrap::Bare).unwrap_or(false) {
        out.push(Fault { label: format!("{}:empty-body", l.label), bytes: frame(c, i, &[]), kind: "malformed" });
    }
    // structure aware: duplicate a group / cut the last prefixed group short
    for v in [all_present(table, ty, 0, 1), all_present(table, ty, 1, 1)] {
        if codec.canonical(ty, &v).is_none() {
            continue;
        }
        let Ok((bytes, spans)) = codec.encode_mapped(ty, &v) else { continue };
        let nodes = build(&bytes, &spans);
        let runs = tagged_runs(&nodes);
        if let Some(&(s, len)) = runs.iter().find(|(s, len)| *len == 1 && !nodes[*s].repeated) {
            let _ = len;
            let mut e = nodes.clone();
            e.push(nodes[s].clone());
            if let Some(b) = render(ty, &e) {
                out.push(Fault { label: format!("{}:duplicated-tag-{:x}", l.label, nodes[s].tagnum.unwrap()), bytes: b, kind: "malformed" });
            }
        }
        // last top-level group has an explicit or fixed length and is tagged: cut one byte off and patch the APDU length
        if let Some(last) = nodes.last() {
            let prefixed = matches!(last.style, Len::Fixed(_) | Len::Ber | Len::LL | Len::LLL);
            let hl = if bytes[2] == 0xff { 5 } else { 3 };
            if prefixed && last.tagnum.is_some() && bytes.len() > hl + 2 {
                let body = &bytes[hl..bytes.len() - 1];
                out.push(Fault { label: format!("{}:last-field-cut-short", l.label), bytes: frame(c, i, body), kind: "malformed" });
            }
        }
        // missing mandatory tagged groups
        let mand: Vec<usize> = nodes.iter().enumerate().filter(|(_, n)| n.mandatory && n.tagnum.is_some()).map(|(k, _)| k).collect();
        if let Some(&m) = mand.first() {
            let e: Vec<Node> = nodes.iter().enumerate().filter(|(k, _)| *k != m).map(|(_, n)| n.clone()).collect();
            if let Some(b) = render(ty, &e) {
                out.push(Fault { label: format!("{}:missing-mandatory-tag", l.label), bytes: b, kind: "malformed" });
            }
        }
        break;
    }
    // only those the reference decoder rejects as well
    out.retain(|f| codec.decode(ty, &f.bytes).is_err());
    out
}

fn faults_for(table: &Table, def: &SeqDef, ls: &[Letter], all_letters: &[Letter]) -> (Vec<Fault>, Vec<Fault>) {
    let codec = Codec::new(table);
    let in_set: Vec<(u8, u8)> = ls.iter().map(|l| table.get(l.ty).ctrl.unwrap()).collect();
    let mut reply: Vec<Fault> = vec![];
    // NACKs
    for xx in [0x00u8, 0x83, 0x9c, 0xff] {
        reply.push(Fault { label: format!("nack-84{xx:02x}"), bytes: vec![0x84, xx, 0x00], kind: "nack" });
    }
    // a bare acknowledgement in a reply slot is a foreign packet as well
    reply.push(Fault { label: "ack-in-reply-slot".into(), bytes: ACK.to_vec(), kind: "foreign" });
    // packets of other reply alphabets
    let mut seen = vec![];
    for l in all_letters {
        let c = table.get(l.ty).ctrl.unwrap();
        if in_set.contains(&c) || seen.contains(&l.bytes) {
            continue;
        }
        seen.push(l.bytes.clone());
        reply.push(Fault { label: format!("foreign:{}", l.label), bytes: l.bytes.clone(), kind: "foreign" });
    }
    // neighbours of the control fields in the set
    let mut nb: Vec<(u8, u8)> = vec![];
    for (c, i) in &in_set {
        for d in [1u8, 0x10, 0x80] {
            nb.push((c ^ d, *i));
            nb.push((*c, i ^ d));
        }
        nb.push((*i, *c));
    }
    nb.sort();
    nb.dedup();
    for (c, i) in nb {
        if !in_set.contains(&(c, i)) {
            reply.push(Fault { label: format!("neighbour-{c:02x}{i:02x}"), bytes: frame(c, i, &[]), kind: "foreign" });
            reply.push(Fault { label: format!("neighbour-{c:02x}{i:02x}-body"), bytes: frame(c, i, &[0x27, 0x00]), kind: "foreign" });
        }
    }
    // malformed bodies and truncations of the in-set packets
    for l in ls {
        reply.extend(malformed(table, &codec, l));
        for cut in 0..l.bytes.len() {
            // every truncation followed by the end of the stream (cut = 0: end of stream between packets)
            if cut == 0 && l.label != ls[0].label {
                continue;
            }
            reply.push(Fault { label: if cut == 0 { "eof-between-packets".into() } else { format!("{}:truncated-at-{cut}", l.label) }, bytes: l.bytes[..cut].to_vec(), kind: "eof" });
        }
    }
    // the acknowledgement slot: everything but 80 00 00
    let mut ack: Vec<Fault> = vec![];
    for xx in [0x00u8, 0x83, 0x9c, 0xff] {
        ack.push(Fault { label: format!("nack-84{xx:02x}"), bytes: vec![0x84, xx, 0x00], kind: "nack" });
    }
    for l in ls {
        ack.push(Fault { label: format!("reply-in-ack-slot:{}", l.label), bytes: l.bytes.clone(), kind: "foreign" });
    }
    for (c, i) in [(0x80u8, 0x01u8), (0x81, 0x00), (0x00, 0x80), (0x84, 0x00)] {
        ack.push(Fault { label: format!("neighbour-{c:02x}{i:02x}"), bytes: frame(c, i, &[]), kind: "foreign" });
    }
    for cut in 0..3 {
        ack.push(Fault { label: format!("ack-truncated-at-{cut}"), bytes: ACK[..cut].to_vec(), kind: "eof" });
    }
    let _ = def;
    (ack, reply)
}

pub fn verify(cmd: &[u8], prefix: &[&Letter], fault_start: usize, events: &[Ev], log: &RunLog) -> Vec<String> {
    let mut problems = vec![];
    if let Some(p) = &log.panic {
        return vec![format!("the sequence panicked: {p}")];
    }
    let k = prefix.len();
    for (i, l) in prefix.iter().enumerate() {
        match log.items.get(i) {
            Some(Ok(d)) if *d == l.debug => {}
            other => problems.push(format!("item {i} must be {} got {:?}", l.debug.chars().take(60).collect::<String>(), other.map(|r| r.as_ref().map(|s| s.chars().take(60).collect::<String>()).map_err(|e| e.chars().take(80).collect::<String>())))),
        }
    }
    let errs = log.items.iter().filter(|i| i.is_err()).count();
    if log.items.len() != k + 1 || errs != 1 || log.items.last().map(|i| i.is_ok()).unwrap_or(true) {
        problems.push(format!(
            "expected {k} packets, then exactly one error, then the end; got {} items with {errs} errors: {:?}",
            log.items.len(),
            log.items.iter().map(|i| i.as_ref().map(|s| s.chars().take(40).collect::<String>()).map_err(|e| e.chars().take(70).collect::<String>())).collect::<Vec<_>>()
        ));
    }
    if log.blocked {
        problems.push("the sequence kept waiting for more data instead of reporting the failure".into());
    } else if !log.ended || log.polls_after_end_not_none > 0 {
        problems.push(format!("after the error the stream must end and stay ended (ended={}, later polls not None: {})", log.ended, log.polls_after_end_not_none));
    }
    // writes: the command, then one acknowledgement per yielded packet, none after the failure
    match events.first() {
        Some(Ev::Write(w)) if w == cmd => {}
        other => problems.push(format!("first event must be the command, got {other:?}")),
    }
    let mut acks = 0;
    let mut offending_read = false;
    let mut eof_seen = false;
    for e in events.iter().skip(1) {
        match e {
            Ev::Read(_, p) if *p > fault_start => offending_read = true,
            Ev::Eof => eof_seen = true,
            Ev::Write(w) => {
                if offending_read || eof_seen {
                    problems.push(format!("wrote {} after the failure (nothing may be written once the offending packet / the end of the stream has been read)", hex_short(w)));
                } else if w[..] == ACK {
                    acks += 1;
                } else {
                    problems.push(format!("unexpected write {}", hex_short(w)));
                }
            }
            _ => {}
        }
    }
    if acks != k {
        problems.push(format!("{acks} acknowledgements written for {k} yielded packets"));
    }
    problems
}

pub fn run(run: &RunInfo) -> Summary {
    let table = shipped();
    let defs = sequences();
    let depth = if run.thorough() { 3 } else { 2 };
    let silencer = crate::wf::silence_stdout();
    let mut all_letters: Vec<Letter> = vec![];
    for d in &defs {
        for l in letters(&table, d) {
            if !all_letters.iter().any(|x| x.bytes == l.bytes) {
                all_letters.push(l);
            }
        }
    }
    let mut acc = par_for(defs.len(), |di, acc| {
        let def = &defs[di];
        if skip_for_replay(run, &format!("c06/{}/", def.name)) {
            return;
        }
        let ls = letters(&table, def);
        let nfl: Vec<&Letter> = ls.iter().filter(|l| !l.is_final).collect();
        let (cmd_v, cmd_bytes) = command_value(&table, def);
        let (ack_faults, reply_faults) = faults_for(&table, def, &ls, &all_letters);
        // valid prefixes: words over the non-final letters
        let mut prefixes: Vec<Vec<usize>> = vec![vec![]];
        let mut cur: Vec<Vec<usize>> = vec![vec![]];
        for _ in 0..depth {
            let mut next = vec![];
            for w in &cur {
                for l in 0..nfl.len() {
                    let mut x = w.clone();
                    x.push(l);
                    next.push(x);
                }
            }
            prefixes.extend(next.clone());
            cur = next;
        }
        let fin_bytes: Vec<u8> = ls.iter().find(|l| l.is_final).map(|l| l.bytes.clone()).unwrap_or_default();
        let mut run_one = |prefix: &[&Letter], fault: &Fault, ack_slot: bool, continued: bool, resend_ack: bool, acc: &mut Acc| {
            let mut incoming: Vec<u8> = vec![];
            if !ack_slot {
                incoming.extend(ACK);
            }
            for l in prefix {
                incoming.extend(&l.bytes);
            }
            let fault_start = incoming.len();
            incoming.extend(&fault.bytes);
            if continued {
                // the terminal carries on as if nothing had happened: a client that does not stop
                // at the failure would read, acknowledge and yield these packets
                if ack_slot && resend_ack {
                    // ... including a positive acknowledgement behind the refused one
                    incoming.extend(ACK);
                }
                incoming.extend(&fin_bytes);
            }
            let mut ctx = Ctx::new(vec![], vec![], 0);
            let sh: Sh = Rc::new(RefCell::new(std::mem::replace(&mut ctx, Ctx::new(vec![], vec![], 0))));
            let s = Scripted::new(sh, incoming.clone(), Chunking::Greedy);
            s.st.borrow_mut().eof_at = Some(incoming.len());
            let log = (def.run)(&cmd_v, &s, None);
            let events = s.st.borrow().log.clone();
            acc.count("executions", 1);
            acc.count("transitions", (prefix.len() + 2) as u64);
            acc.count(&format!("kind:{}", fault.kind), 1);
            let problems = verify(&cmd_bytes, prefix, fault_start, &events, &log);
            let pname: String = prefix.iter().map(|l| l.label.as_str()).collect::<Vec<_>>().join(",");
            acc.set("outcomes", h64(&(def.name, &pname, &fault.label, ack_slot, continued, resend_ack)));
            if problems.is_empty() {
                acc.count(&format!("ok:{}", fault.kind), 1);
            } else {
                acc.violation(viol(
                    format!("c06/{}/prefix={pname}/{}={}/continued={continued}{}", def.name, if ack_slot { "ack-slot" } else { "fault" }, fault.label, if resend_ack { "+ack" } else { "" }),
                    format!(
                        "sequence {} command {}\nvalid prefix: [{pname}]\nfault ({}) in the {}: {} = {}{}\n{}\nevent log:\n{}",
                        def.name,
                        hex_short(&cmd_bytes),
                        fault.kind,
                        if ack_slot { "acknowledgement slot" } else { "next reply slot" },
                        fault.label,
                        hex_short(&fault.bytes),
                        if continued { " (followed by a well-formed rest of the exchange)" } else { " (then the stream ends)" },
                        problems.join("\n"),
                        render_events(&events)
                    ),
                    (prefix.len() * 10) as u64,
                ));
            }
        };
        // the connection breaks on the writing side: the w-th write (0 = the command, j = the
        // acknowledgement of the j-th reply) fails, and every later one would
        if !fin_bytes.is_empty() || nfl.is_empty() {
            let fin_letter = ls.iter().find(|l| l.is_final);
            for w in &prefixes {
                let mut script: Vec<&Letter> = w.iter().map(|i| nfl[*i]).collect();
                if let Some(f) = fin_letter {
                    script.push(f);
                }
                for wf in 0..=script.len() {
                    let mut incoming: Vec<u8> = ACK.to_vec();
                    for l in &script {
                        incoming.extend(&l.bytes);
                    }
                    let sh: Sh = Rc::new(RefCell::new(Ctx::new(vec![], vec![], 0)));
                    let s = Scripted::new(sh, incoming.clone(), Chunking::Greedy);
                    s.st.borrow_mut().eof_at = Some(incoming.len());
                    s.st.borrow_mut().fail_write_call = Some(wf);
                    let log = (def.run)(&cmd_v, &s, None);
                    let events = s.st.borrow().log.clone();
                    acc.count("executions", 1);
                    acc.count("transitions", (script.len() + 2) as u64);
                    acc.count("kind:write-failure", 1);
                    let yielded = wf.saturating_sub(1);
                    let mut problems = vec![];
                    if let Some(p) = &log.panic {
                        problems.push(format!("the sequence panicked: {p}"));
                    } else {
                        for (i, l) in script.iter().take(yielded).enumerate() {
                            match log.items.get(i) {
                                Some(Ok(d)) if *d == l.debug => {}
                                other => problems.push(format!("item {i} must be {} got {:?}", l.debug.chars().take(60).collect::<String>(), other.map(|r| r.as_ref().map(|s| s.chars().take(60).collect::<String>()).map_err(|e| e.chars().take(80).collect::<String>())))),
                            }
                        }
                        let errs = log.items.iter().filter(|i| i.is_err()).count();
                        if log.items.len() != yielded + 1 || errs != 1 || log.items.last().map(|i| i.is_ok()).unwrap_or(true) {
                            problems.push(format!("expected {yielded} packets, then exactly one error, then the end; got {} items with {errs} errors: {:?}", log.items.len(), log.items.iter().map(|i| i.as_ref().map(|s| s.chars().take(40).collect::<String>()).map_err(|e| e.chars().take(70).collect::<String>())).collect::<Vec<_>>()));
                        }
                        if log.blocked || !log.ended || log.polls_after_end_not_none > 0 {
                            problems.push(format!("after the error the stream must end and stay ended (blocked={}, ended={}, later polls not None: {})", log.blocked, log.ended, log.polls_after_end_not_none));
                        }
                        let writes: Vec<&Vec<u8>> = events.iter().filter_map(|e| if let Ev::Write(w) = e { Some(w) } else { None }).collect();
                        let refused = events.iter().filter(|e| matches!(e, Ev::Mark(m) if m.contains("refused"))).count();
                        if refused != 1 {
                            problems.push(format!("{refused} writes were attempted on the broken connection (expected the failing one only)"));
                        }
                        let mut all: Vec<u8> = vec![];
                        for wv in &writes {
                            all.extend(wv.iter());
                        }
                        let mut want: Vec<u8> = vec![];
                        if wf > 0 {
                            want.extend(&cmd_bytes);
                            for _ in 0..yielded {
                                want.extend(ACK);
                            }
                        }
                        if all != want {
                            problems.push(format!("bytes written {} differ from the command and {yielded} acknowledgements {}", hex_short(&all), hex_short(&want)));
                        }
                    }
                    let pname: String = script.iter().map(|l| l.label.as_str()).collect::<Vec<_>>().join(",");
                    acc.set("outcomes", h64(&(def.name, &pname, "write-failure", wf)));
                    if problems.is_empty() {
                        acc.count("ok:write-failure", 1);
                    } else {
                        acc.violation(viol(
                            format!("c06/{}/script={pname}/write-failure-at={wf}", def.name),
                            format!("sequence {} command {}\nreply script: [{pname}]\nthe connection breaks on the writing side: write number {wf} (0 = the command, j = the acknowledgement of reply j) fails\n{}\nevent log:\n{}", def.name, hex_short(&cmd_bytes), problems.join("\n"), render_events(&events)),
                            (script.len() * 10) as u64,
                        ));
                    }
                }
            }
        }
        for f in &ack_faults {
            run_one(&[], f, true, false, false, acc);
            if f.kind != "eof" {
                run_one(&[], f, true, true, false, acc);
                run_one(&[], f, true, true, true, acc);
            }
        }
        for w in &prefixes {
            let prefix: Vec<&Letter> = w.iter().map(|i| nfl[*i]).collect();
            for f in &reply_faults {
                run_one(&prefix, f, false, false, false, acc);
                if f.kind != "eof" {
                    run_one(&prefix, f, false, true, false, acc);
                }
            }
        }
    });
    // the firmware upload (its replies are data requests answered with data blocks)
    if !skip_for_replay(run, "c06/WriteFile/") {
        let a = crate::wf::c06_part(run);
        acc.merge(a);
    }
    if acc.get("w_upload_fault_reported") > 0 && acc.get("w_upload_fault_after_last_byte") > 0 {
        acc.witness("faults in the firmware upload, also after the last byte of the file was sent, produced exactly one error");
    }
    drop(silencer);
    for k in ["nack", "foreign", "malformed", "eof", "write-failure"] {
        if acc.get(&format!("ok:{k}")) > 0 {
            acc.witness(&format!("fault kind '{k}' produced exactly one error and silence"));
        }
    }
    acc.sample(json!({"sequence": "StatusEnquiry", "prefix": "PrintLine:min", "fault": "foreign:Abort:min (061e016c)", "expected": "PrintLine, one error, end; one acknowledgement in total"}));
    acc.sample(json!({"sequence": "Registration", "fault": "nack-849c in the acknowledgement slot", "expected": "one error, nothing written after the command"}));
    let execs = acc.get("executions");
    acc.count("evaluations", execs);
    let updepth = depth + 1;
    Summary {
        states: acc.set_len("outcomes"),
        transitions: acc.get("transitions"),
        traces_validated: execs,
        distinct_nontrivial: acc.set_len("outcomes"),
        rule: format!("firmware upload: every word of <= {updepth} data requests over the three blocks of a 17-byte file (incl. words after which every byte has been sent) x 10 complete faulty packets (followed by the end of the stream and by a well-formed rest) and every truncation of a completion and of a data request, in the reply slot and in the place of the acknowledgement of the file list; 17 sequences x every valid reply-script prefix of <= {depth} non-final letters x fault in the next slot: NACK 84xx (00, 83, 9C, FF), a bare acknowledgement, every packet of the other reply alphabets, one-byte neighbours of every listed control field (with and without body), malformed bodies the reference decoder rejects as well (empty body before a mandatory field, duplicated tag, last prefixed field cut short, missing mandatory tag), every truncation of every in-set packet followed by the end of the stream, end of stream between packets; every complete faulty packet both followed by the end of the stream and by a well-formed rest of the exchange; a broken pipe at every write of every valid script (the command, each acknowledgement); in the acknowledgement slot (followed by silence, by the rest of the exchange, and by a positive acknowledgement plus the rest): NACKs, every reply packet, neighbours of 80 00, truncated acknowledgements. distinct_nontrivial = distinct (sequence, prefix, fault) cases"),
        exhaustive: true,
        required_witnesses: vec![
            "fault kind 'nack' produced exactly one error and silence".into(),
            "fault kind 'foreign' produced exactly one error and silence".into(),
            "fault kind 'malformed' produced exactly one error and silence".into(),
            "fault kind 'eof' produced exactly one error and silence".into(),
            "fault kind 'write-failure' produced exactly one error and silence".into(),
            "faults in the firmware upload, also after the last byte of the file was sent, produced exactly one error".into(),
        ],
        assumptions: vec![
            "malformed bodies are restricted to kinds the packet type's own decoder must reject (C02/C13); lenient decoding of unknown tags is not a fault".into(),
            "an acknowledgement with a non-empty body (80 00 nn ..) is outside the alphabet".into(),
            "invalid data requests of the firmware upload are covered by C11; transport and framing faults of the upload here".into(),
        ],
        bounds: json!({"prefix_length": depth}),
        caps_hit: vec![],
        evaluations_counter: "evaluations".into(),
        acc,
    }
}
