//! C02 - decoding is total: arbitrary bytes give a value or an error, never a panic, an
//! arithmetic overflow, a loop without progress or an allocation beyond a small multiple of the
//! input.
use crate::real::*;
use crate::util::*;
use serde_json::json;
use vcore::alloc::{peak_since, reset_peak};
use vcore::codec::*;
use vcore::layout::*;
use vcore::report::*;
use vcore::tree::*;
use vcore::values::*;
use zvt_builder::ZVTError;

#[derive(Clone)]
struct Dec {
    name: String,
    /// control fields under which this decoder is reachable (None: container without header)
    ctrls: Option<Vec<(u8, u8)>>,
    call: DecFn,
}

#[derive(Clone)]
enum DecFn {
    Type(fn(&[u8]) -> Result<(usize, usize), ZVTError>),
    Enum(fn(&[u8]) -> Result<(), ZVTError>),
}

fn decoders(table: &Table) -> Vec<Dec> {
    let mut out = vec![];
    for r in registry() {
        let ty = table.get(r.key);
        out.push(Dec { name: r.key.to_string(), ctrls: ty.ctrl.map(|c| vec![c]), call: DecFn::Type(r.decode_quiet) });
    }
    let reply = reply_table();
    for e in enums() {
        let vars = &reply.iter().find(|(k, _)| *k == e.key).unwrap().1;
        let mut ctrls: Vec<(u8, u8)> = vars.iter().map(|(_, tk)| table.get(tk).ctrl.unwrap()).collect();
        ctrls.sort();
        ctrls.dedup();
        out.push(Dec { name: format!("enum {}", e.key), ctrls: Some(ctrls), call: DecFn::Enum(e.parse_quiet) });
    }
    out
}

/// One guarded call with the totality oracle. Returns true if the call returned Ok.
#[inline]
fn total(dec: &Dec, input: &[u8], what: &dyn Fn() -> String, acc: &mut Acc) -> bool {
    watch_tick();
    let base = reset_peak();
    let r = guarded(|| match &dec.call {
        DecFn::Type(f) => f(input).map(|(rest, off)| (rest, off)),
        DecFn::Enum(f) => f(input).map(|_| (0, input.len())),
    });
    let peak = peak_since(base);
    let limit = 1024 * input.len() + 65536;
    let mut ok = false;
    match r {
        Err(p) => {
            let key = format!("c02/{}/panic/{}", dec.name, hex_short(input));
            acc.violation(viol(key, format!("decoder {} on {} ({}): panicked: {p}", dec.name, hex_short(input), what()), input.len() as u64));
        }
        Ok(Ok((rest, off))) => {
            ok = true;
            if off == usize::MAX || off + rest != input.len() {
                let key = format!("c02/{}/remainder/{}", dec.name, hex_short(input));
                acc.violation(viol(key, format!("decoder {} on {} ({}): the remainder is not a suffix of the input", dec.name, hex_short(input), what()), input.len() as u64));
            }
        }
        Ok(Err(_)) => {}
    }
    if peak > limit {
        let key = format!("c02/{}/alloc/{}", dec.name, hex_short(input));
        acc.violation(viol(
            key,
            format!("decoder {} on {} ({}): peak live allocation of the call {peak} bytes exceeds 1024 x input + 64 KiB = {limit}", dec.name, hex_short(input), what()),
            input.len() as u64,
        ));
    }
    if peak > 4096 {
        acc.max("peak_alloc_per_input_byte_x100", (peak * 100 / input.len().max(1)) as u64);
    }
    ok
}

fn frame(c: (u8, u8), body: &[u8]) -> Vec<u8> {
    let mut p = vec![c.0, c.1];
    p.extend(apdu_len(body.len()).unwrap());
    p.extend_from_slice(body);
    p
}

// ---------------------------------------------------------------- (a) all short bodies

fn short_bodies(dec: &Dec, first: Option<u8>, maxlen: usize, acc: &mut Acc) {
    let ctrls: Vec<Option<(u8, u8)>> = match &dec.ctrls {
        None => vec![None],
        Some(v) => v.iter().map(|c| Some(*c)).collect(),
    };
    for c in ctrls {
        let (mut n_ok, mut n_err) = (0u64, 0u64);
        let mut run = |body: &[u8], acc: &mut Acc| {
            let input = match c {
                Some(c) => frame(c, body),
                None => body.to_vec(),
            };
            if total(dec, &input, &|| "short body under a correct header".to_string(), acc) {
                n_ok += 1;
            } else {
                n_err += 1;
            }
        };
        match first {
            None => run(&[], acc),
            Some(b0) => {
                run(&[b0], acc);
                if maxlen >= 2 {
                    for b1 in 0..=255u8 {
                        run(&[b0, b1], acc);
                        if maxlen >= 3 {
                            for b2 in 0..=255u8 {
                                run(&[b0, b1, b2], acc);
                            }
                        }
                    }
                }
            }
        }
        acc.count("cases", n_ok + n_err);
        acc.count("short_bodies", n_ok + n_err);
        acc.count("short_ok", n_ok);
        acc.count("short_err", n_err);
    }
}

// ---------------------------------------------------------------- corpus

struct Item {
    label: String,
    bytes: Vec<u8>,
    /// decoders this item is fed to
    decs: Vec<usize>,
    /// (type, value) for generated items: structure-aware edits need the structure map
    gen: Option<(String, Val)>,
}

fn corpus(table: &Table, decs: &[Dec], thorough: bool) -> Vec<Item> {
    let codec = Codec::new(table);
    let mut items = vec![];
    let decs_for_ctrl = |c: (u8, u8)| -> Vec<usize> { decs.iter().enumerate().filter(|(_, d)| d.ctrls.as_ref().map(|v| v.contains(&c)).unwrap_or(false)).map(|(i, _)| i).collect() };
    if let Ok(rd) = std::fs::read_dir("/repo/zvt/data") {
        let mut names: Vec<_> = rd.filter_map(|e| e.ok()).map(|e| e.path()).collect();
        names.sort();
        for p in names {
            if let Ok(b) = std::fs::read(&p) {
                if b.len() >= 2 && (thorough || b.len() <= 1500) {
                    let d = decs_for_ctrl((b[0], b[1]));
                    items.push(Item { label: format!("blob {}", p.file_name().unwrap().to_string_lossy()), bytes: b, decs: d, gen: None });
                }
            }
        }
    }
    for ty in table.all() {
        let mut vals: Vec<(String, Val)> = vec![("baseline".into(), baseline(table, ty))];
        for pick in 0..(if thorough { 4 } else { 2 }) {
            for vlen in 1..=2 {
                vals.push((format!("all-present-{pick}-{vlen}"), all_present(table, ty, pick, vlen)));
            }
        }
        for (li, path) in variable_leaves(table, ty).iter().enumerate() {
            for n in [0usize, 1, 127, 128, 252, 255, 256] {
                if !thorough && li >= 3 {
                    break;
                }
                vals.push((format!("sized-{li}-{n}"), sized(table, ty, path, n)));
            }
        }
        for (label, v) in vals {
            let Some(bytes) = codec.canonical(ty, &v) else { continue };
            let d: Vec<usize> = match ty.ctrl {
                Some(c) => decs_for_ctrl(c).into_iter().filter(|i| decs[*i].name == ty.key || decs[*i].name.starts_with("enum ")).collect(),
                None => decs.iter().enumerate().filter(|(_, d)| d.name == ty.key).map(|(i, _)| i).collect(),
            };
            items.push(Item { label: format!("{} {label}", ty.key), bytes, decs: d, gen: Some((ty.key.clone(), v)) });
        }
    }
    items.sort_by(|a, b| (a.bytes.clone(), a.label.clone()).cmp(&(b.bytes.clone(), b.label.clone())));
    items.dedup_by(|a, b| a.bytes == b.bytes && a.decs == b.decs);
    items
}

const INTERESTING: [u8; 20] = [0x00, 0x01, 0x02, 0x06, 0x07, 0x09, 0x1f, 0x25, 0x60, 0x7f, 0x80, 0x81, 0x82, 0x83, 0x99, 0xf0, 0xf9, 0xfa, 0xfe, 0xff];

fn byte_level(item: &Item, decs: &[Dec], thorough: bool, acc: &mut Acc) {
    let b = &item.bytes;
    let all_values = thorough || b.len() <= 300;
    for (k, &di) in item.decs.iter().enumerate() {
        // quick tier: the type's own decoder and the first reply parser that reaches it
        if !thorough && k >= 2 {
            break;
        }
        let dec = &decs[di];
        watch_enter(|| format!("c02 byte-level sweep of {} through {}", item.label, dec.name));
        // every truncation, raw and with the APDU length patched
        let (mut n_trunc, mut n_sub, mut n_sub_ok) = (0u64, 0u64, 0u64);
        for cut in 0..b.len() {
            n_trunc += 1;
            total(dec, &b[..cut], &|| format!("{} truncated to {cut} bytes", item.label), acc);
            if dec.ctrls.is_some() && cut >= 3 {
                let hl = if b[2] == 0xff { 5 } else { 3 };
                if cut >= hl {
                    let patched = frame((b[0], b[1]), &b[hl..cut]);
                    n_trunc += 1;
                    total(dec, &patched, &|| format!("{} truncated to {cut} bytes, APDU length patched", item.label), acc);
                }
            }
        }
        // every single-byte substitution
        let mut m = b.clone();
        for off in 0..b.len() {
            let orig = m[off];
            for v in 0..=255u8 {
                if v == orig || (!all_values && !INTERESTING.contains(&v)) {
                    continue;
                }
                m[off] = v;
                n_sub += 1;
                if total(dec, &m, &|| format!("{} with byte {off} set to {v:02x}", item.label), acc) {
                    n_sub_ok += 1;
                }
            }
            m[off] = orig;
        }
        acc.count("cases", n_trunc + n_sub);
        acc.count("truncations", n_trunc);
        acc.count("substitutions", n_sub);
        acc.count("substitution_still_ok", n_sub_ok);
        watch_exit();
    }
}

// ---------------------------------------------------------------- (c) structure-aware edits

fn visit_nodes(nodes: &[Node], path: &mut Vec<usize>, f: &mut dyn FnMut(&[usize], &Node)) {
    for (i, n) in nodes.iter().enumerate() {
        path.push(i);
        f(path, n);
        if let Body::Kids(k) = &n.body {
            visit_nodes(k, path, f);
        }
        path.pop();
    }
}

fn node_mut<'a>(nodes: &'a mut Vec<Node>, path: &[usize]) -> &'a mut Node {
    let (last, lp) = path.split_last().unwrap();
    &mut level_mut(nodes, lp)[*last]
}

fn length_prefix_edits(style: &Len, len: usize) -> Vec<Vec<u8>> {
    let l = len as i64;
    match style {
        Len::Ber => {
            let mut v: Vec<Vec<u8>> = vec![vec![0x00], vec![0x01], vec![0x7f], vec![0x80], vec![0x81], vec![0x82], vec![0x83], vec![0xfe], vec![0xff]];
            for d in [l - 1, l + 1, l + 2, l + 3] {
                if (0..=127).contains(&d) {
                    v.push(vec![d as u8]);
                }
                if (0..=255).contains(&d) {
                    v.push(vec![0x81, d as u8]);
                }
                if (0..=65535).contains(&d) {
                    v.push(vec![0x82, (d >> 8) as u8, d as u8]);
                }
            }
            v.push(vec![0x81, 0xff]);
            v.push(vec![0x82, 0x00]);
            v.push(vec![0x82, 0xff, 0xff]);
            v.push(vec![0x82, 0x7f, 0xff]);
            v
        }
        Len::LL | Len::LLL => {
            let d = if *style == Len::LL { 2 } else { 3 };
            let digits = |n: i64| -> Vec<u8> { format!("{:0w$}", n.max(0), w = d).bytes().rev().take(d).rev().map(|c| 0xf0 | (c - b'0')).collect() };
            let mut v = vec![digits(0), digits(1), digits(l - 1), digits(l + 1), digits(l + 2), digits(l + 3), vec![0xf9; d], vec![0xff; d], vec![0x00; d], vec![0xf0]];
            v.push(vec![0x0f; d]);
            v
        }
        _ => vec![],
    }
}

fn structure_aware(item: &Item, table: &Table, decs: &[Dec], thorough: bool, acc: &mut Acc) {
    let Some((tk, v)) = &item.gen else { return };
    let ty = table.get(tk);
    let codec = Codec::new(table);
    let Ok((bytes, spans)) = codec.encode_mapped(ty, v) else { return };
    let nodes = build(&bytes, &spans);
    if render(ty, &nodes).as_deref() != Some(&bytes[..]) {
        eprintln!("MACHINERY: encoded tree of {} does not render to the reference bytes", item.label);
        std::process::exit(EXIT_MACHINERY);
    }
    // collect single edits as functions on the tree
    type Edit = (String, Box<dyn Fn(&mut Vec<Node>) + Sync>);
    let mut edits: Vec<Edit> = vec![];
    let mut raw_inputs: Vec<(String, Vec<u8>)> = vec![];
    let mut paths: Vec<(Vec<usize>, Node)> = vec![];
    visit_nodes(&nodes, &mut vec![], &mut |p, n| paths.push((p.to_vec(), n.clone())));
    for (p, n) in &paths {
        let plen = match &n.body {
            Body::Leaf(b) => b.len(),
            Body::Kids(k) => render_nodes(k).map(|b| b.len()).unwrap_or(0),
        };
        // length prefix edits, with patched enclosing lengths (tree) and without (raw splice)
        for pre in length_prefix_edits(&n.style, plen) {
            let pp = p.clone();
            let pre2 = pre.clone();
            edits.push((format!("length prefix of {} := {}", n.path, hex(&pre)), Box::new(move |t: &mut Vec<Node>| node_mut(t, &pp).prefix_override = Some(pre2.clone()))));
            if let Some(sp) = spans.iter().find(|s| s.path == n.path) {
                let mut raw = bytes[..sp.len_at].to_vec();
                raw.extend(&pre);
                raw.extend(&bytes[sp.payload_at..]);
                raw_inputs.push((format!("length prefix of {} := {} (enclosing lengths not patched)", n.path, hex(&pre)), raw));
            }
        }
        // BCD fields widened with 99.. and FF..
        if matches!(n.enc, Enc::Bcd(_) | Enc::Rcpt) {
            for w in 1..=11usize {
                for fill in [0x99u8, 0xff] {
                    let pp = p.clone();
                    edits.push((format!("BCD field {} := {w} bytes of {fill:02x}", n.path), Box::new(move |t: &mut Vec<Node>| node_mut(t, &pp).body = Body::Leaf(vec![fill; w]))));
                }
            }
        }
        // BCD fields: every spelling (even digit count, F-padded odd count, leading zero bytes) of the
        // values around the maximum of the field's integer type, and MAX/10 followed by every pad byte
        if let Enc::Bcd(bits) = n.enc {
            let max: u128 = if bits >= 64 { u64::MAX as u128 } else { (1u128 << bits) - 1 };
            let mut payloads: Vec<Vec<u8>> = vec![];
            let to_bcd = |digits: &str, pad: bool| -> Vec<u8> {
                let mut d: Vec<u8> = digits.bytes().map(|c| c - b'0').collect();
                if d.len() % 2 == 1 {
                    if pad {
                        d.push(0xf);
                    } else {
                        d.insert(0, 0);
                    }
                }
                d.chunks(2).map(|c| (c[0] << 4) | c[1]).collect()
            };
            for v in max.saturating_sub(12)..=max + 60 {
                let ds = v.to_string();
                payloads.push(to_bcd(&ds, false));
                payloads.push(to_bcd(&ds, true));
                let mut lead = vec![0u8];
                lead.extend(to_bcd(&ds, false));
                payloads.push(lead);
            }
            let tenth = (max / 10).to_string();
            for x in 0..=0xfu8 {
                // digits of MAX/10 followed by the single digit x, written with a pad nibble
                let mut d: Vec<u8> = tenth.bytes().map(|c| c - b'0').collect();
                d.push(x);
                d.push(0xf);
                if d.len() % 2 == 1 {
                    d.insert(0, 0);
                }
                payloads.push(d.chunks(2).map(|c| (c[0] << 4) | c[1]).collect());
            }
            payloads.sort();
            payloads.dedup();
            for pl in payloads {
                let pp = p.clone();
                edits.push((format!("BCD field {} := {}", n.path, hex(&pl)), Box::new(move |t: &mut Vec<Node>| node_mut(t, &pp).body = Body::Leaf(pl.clone()))));
            }
        }
        // calendar fields
        if n.enc == Enc::Dt {
            if let Body::Leaf(orig) = &n.body {
                if orig.len() == 13 {
                    for mo in 0..20u8 {
                        for d in 0..40u8 {
                            let pp = p.clone();
                            let mut b = orig.clone();
                            b[5] = ((mo / 10) << 4) | (mo % 10);
                            b[6] = ((d / 10) << 4) | (d % 10);
                            edits.push((format!("date of {} := month {mo:02} day {d:02}", n.path), Box::new(move |t: &mut Vec<Node>| node_mut(t, &pp).body = Body::Leaf(b.clone()))));
                        }
                    }
                    for pos in 10..13usize {
                        for x in 0..100u8 {
                            let pp = p.clone();
                            let mut b = orig.clone();
                            b[pos] = ((x / 10) << 4) | (x % 10);
                            edits.push((format!("time of {} byte {} := {x:02}", n.path, pos - 10), Box::new(move |t: &mut Vec<Node>| node_mut(t, &pp).body = Body::Leaf(b.clone()))));
                        }
                    }
                    for y in [0u16, 1, 9999] {
                        let pp = p.clone();
                        let mut b = orig.clone();
                        b[3] = (((y / 1000) as u8) << 4) | ((y / 100 % 10) as u8);
                        b[4] = (((y / 10 % 10) as u8) << 4) | ((y % 10) as u8);
                        edits.push((format!("year of {} := {y}", n.path), Box::new(move |t: &mut Vec<Node>| node_mut(t, &pp).body = Body::Leaf(b.clone()))));
                    }
                    // wider date/time digit strings inside the container
                    for w in [5usize, 8, 9, 11] {
                        let pp = p.clone();
                        let mut b = vec![0x1f, 0x0e, w as u8];
                        b.extend(vec![0x99; w]);
                        b.extend([0x1f, 0x0f, w as u8]);
                        b.extend(vec![0x99; w]);
                        edits.push((format!("date/time of {} := {w} bytes of 99 each", n.path), Box::new(move |t: &mut Vec<Node>| node_mut(t, &pp).body = Body::Leaf(b.clone()))));
                    }
                }
            }
        }
        // tag edits: 1F, FF, every sibling tag (duplicate)
        if n.tagnum.is_some() {
            let (_, lp) = p.split_last().unwrap();
            let sibs: Vec<Vec<u8>> = level(&nodes, lp).iter().filter(|s| s.tagnum.is_some() && s.tagnum != n.tagnum).map(|s| s.tag.clone()).collect();
            let mut repl: Vec<Vec<u8>> = vec![vec![0x1f], vec![0xff], vec![0x1f, 0xff], vec![0xff, 0x1f]];
            repl.extend(sibs);
            repl.sort();
            repl.dedup();
            for r in repl {
                let pp = p.clone();
                let r2 = r.clone();
                edits.push((format!("tag of {} := {}", n.path, hex(&r)), Box::new(move |t: &mut Vec<Node>| node_mut(t, &pp).tag = r2.clone())));
            }
        }
    }
    // a date or time that does not exist is a number that does not fit its field: an error, never
    // a made-up value
    if edits.iter().any(|(w, _)| w.starts_with("date of") || w.starts_with("time of")) {
        if let Some(real) = crate::real::registry().into_iter().find(|r| r.key == ty.key) {
            for (what, e) in edits.iter().filter(|(w, _)| w.starts_with("date of") || w.starts_with("time of")) {
                let mut t = nodes.clone();
                e(&mut t);
                let Some(input) = render(ty, &t) else { continue };
                if !matches!(codec.decode(ty, &input), Err(RefErr::Malformed(m)) if m == "calendar") {
                    continue;
                }
                acc.count("cases", 1);
                acc.count("calendar_cases", 1);
                match guarded(|| (real.decode)(&input)) {
                    Ok(Err(_)) => acc.count("calendar_rejected", 1),
                    Err(_) => {} // a panic is reported by the sweep below
                    Ok(Ok((dbg, _, _))) => acc.violation(viol(
                        format!("c02/{}/calendar/{}", ty.key, hex_short(&input)),
                        format!("decoder {} on {} ({}: {what}): the date/time does not exist, expected an error, got {dbg}", ty.key, hex_short(&input), item.label),
                        input.len() as u64,
                    )),
                }
            }
        }
    }
    for (k, &di) in item.decs.iter().enumerate() {
        if !thorough && k >= 2 {
            break;
        }
        let dec = &decs[di];
        watch_enter(|| format!("c02 structure-aware edits of {} through {}", item.label, dec.name));
        for (what, raw) in &raw_inputs {
            acc.count("cases", 1);
            acc.count("structure_edits", 1);
            total(dec, raw, &|| format!("{}: {what}", item.label), acc);
        }
        for (what, e) in &edits {
            let mut t = nodes.clone();
            e(&mut t);
            let Some(input) = render(ty, &t) else { continue };
            acc.count("cases", 1);
            acc.count("structure_edits", 1);
            if total(dec, &input, &|| format!("{}: {what}", item.label), acc) {
                acc.count("structure_edit_still_ok", 1);
            }
        }
        if thorough && edits.len() <= 700 {
            // pairs of edits
            for (i, (w1, e1)) in edits.iter().enumerate() {
                for (w2, e2) in edits.iter().skip(i + 1) {
                    let mut t = nodes.clone();
                    e1(&mut t);
                    e2(&mut t);
                    let Some(input) = render(ty, &t) else { continue };
                    acc.count("cases", 1);
                    acc.count("structure_edit_pairs", 1);
                    total(dec, &input, &|| format!("{}: {w1} and {w2}", item.label), acc);
                }
            }
        }
        watch_exit();
    }
}

pub fn run(run: &RunInfo) -> Summary {
    let table = shipped();
    let thorough = run.thorough();
    let decs = decoders(&table);
    start_watchdog(&run.property, &run.verif_dir, 20, 24 << 30);
    let items = corpus(&table, &decs, thorough);
    // work list
    enum W {
        Short(usize, Option<u8>),
        Bytes(usize),
        Struct(usize),
    }
    let mut work: Vec<W> = vec![];
    let maxlen = if thorough { 3 } else { 2 };
    for di in 0..decs.len() {
        work.push(W::Short(di, None));
        for b in 0..=255u8 {
            work.push(W::Short(di, Some(b)));
        }
    }
    for ii in 0..items.len() {
        work.push(W::Bytes(ii));
        work.push(W::Struct(ii));
    }
    // long items first
    work.sort_by_key(|w| match w {
        W::Bytes(i) => -(items[*i].bytes.len() as i64) * 10,
        W::Struct(i) => -(items[*i].bytes.len() as i64),
        W::Short(..) => 0,
    });
    let mut acc = par_for(work.len(), |ix, acc| match &work[ix] {
        W::Short(di, first) => {
            if first.is_none() || first == &Some(0) {
                watch_enter(|| format!("c02 short bodies through {}", decs[*di].name));
            }
            short_bodies(&decs[*di], *first, maxlen, acc);
            watch_exit();
        }
        W::Bytes(ii) => byte_level(&items[*ii], &decs, thorough, acc),
        W::Struct(ii) => structure_aware(&items[*ii], &table, &decs, thorough, acc),
    });
    // once more with a logger installed at the most verbose level: the arguments of logging
    // statements are only evaluated then, and they slice and format the same untrusted bytes
    {
        crate::util::logging(true);
        let mut lw: Vec<W> = vec![];
        for di in 0..decs.len() {
            lw.push(W::Short(di, None));
        }
        for ii in 0..items.len() {
            lw.push(W::Struct(ii));
        }
        let sub = par_for(lw.len(), |ix, acc| {
            let before = acc.get("cases");
            match &lw[ix] {
                W::Short(di, first) => short_bodies(&decs[*di], *first, 1, acc),
                W::Struct(ii) => structure_aware(&items[*ii], &table, &decs, thorough, acc),
                W::Bytes(_) => {}
            }
            let n = acc.get("cases") - before;
            acc.count("cases_with_logger", n);
        });
        crate::util::logging(false);
        acc.merge(sub);
    }
    // the same truncations arriving over a connection that ends: every reply parser behind the
    // real transport must return (an error), never wait or spin
    {
        let ens = crate::real::enums();
        let reply = crate::real::reply_table();
        let small: Vec<&Item> = items.iter().filter(|i| i.bytes.len() <= 64 && i.gen.is_some()).collect();
        let sub = par_for(ens.len(), |ei, acc| {
            let en = &ens[ei];
            let variants = &reply.iter().find(|(k, _)| *k == en.key).unwrap().1;
            for it in &small {
                let Some((tk, _)) = &it.gen else { continue };
                if !variants.iter().any(|(_, t)| t == tk) {
                    continue;
                }
                for cut in 0..it.bytes.len() {
                    let stream = &it.bytes[..cut];
                    watch_enter(|| format!("c02 {} read through the transport from the truncated stream {}", en.key, hex_short(stream)));
                    let sh: crate::sim::Sh = std::rc::Rc::new(std::cell::RefCell::new(vcore::dbx::Ctx::new(vec![], vec![], 0)));
                    let got = (en.read)(sh, stream, 1);
                    watch_exit();
                    acc.count("cases", 1);
                    acc.count("transport_truncations", 1);
                    match got.first() {
                        Some((Some(Err(e)), _)) if !e.starts_with("PANIC") => acc.count("transport_truncation_rejected", 1),
                        other => acc.violation(viol(
                            format!("c02/{}/transport-truncation/{}", en.key, hex_short(stream)),
                            format!("{} read through PacketTransport::read_packet from a connection that delivers {} and ends ({} cut after {cut} bytes): expected an error, got {other:?}", en.key, hex_short(stream), it.label),
                            cut as u64,
                        )),
                    }
                }
            }
        });
        acc.merge(sub);
    }
    acc.count("corpus_items", items.len() as u64);
    for (w, c) in [("truncated replies over an ending connection rejected", "transport_truncation_rejected"), ("short bodies decoded", "short_ok"), ("short bodies rejected", "short_err"), ("substituted packets still decoded", "substitution_still_ok"), ("structure-aware edits still decoded", "structure_edit_still_ok")] {
        if acc.get(c) > 0 {
            acc.witness(w);
        }
    }
    acc.sample(json!({"decoder": "IntermediateStatusInformation", "input": "04ff03179999", "expected": "Ok or Err, no panic"}));
    acc.sample(json!({"decoder": "tlv::ReceiptPrintoutCompletion", "edit": "date := month 13 day 32", "expected": "Err"}));
    acc.sample(json!({"decoder": "StatusInformation", "edit": "length prefix of tlv := 82 (enclosing lengths not patched)", "expected": "Err"}));
    let cases = acc.get("cases");
    acc.count("evaluations", cases);
    Summary {
        states: cases,
        transitions: cases,
        traces_validated: cases,
        distinct_nontrivial: acc.get("short_ok") + acc.get("substitution_still_ok") + acc.get("structure_edit_still_ok"),
        rule: format!("55 struct decoders + 17 reply parsers: every body of length 0..={maxlen} under a correct header; corpus of {} packets (captured blobs, baseline / all-present / sized values of every type): every truncation (raw and with the APDU length patched), every single-byte substitution (255 values at every offset; quick tier: 20 boundary values for packets longer than 300 bytes, and two decoders per packet), structure-aware edits enumerated completely (length prefixes set to boundary forms with and without patching enclosing lengths, BCD fields widened to 1..11 bytes of 99/FF and set to every spelling of max-12..max+60 of their integer type and to MAX/10 followed by every pad byte, calendar fields over months 00..19 x days 00..39 and 00..99 for h/m/s, tags replaced by 1F/FF/sibling tags{}); every truncation of the generated reply packets of up to 64 bytes read through PacketTransport::read_packet by every reply parser that lists the packet, over a connection that ends. Oracle: Ok or Err, no panic (overflow checks on), an error for dates and times that do not exist, remainder is a suffix of the input, peak live allocation of a call <= 1024 x input + 64 KiB, no call longer than 20 s. distinct_nontrivial = mutated inputs that still decoded to a value", items.len(), if thorough { "; pairs of edits" } else { "" }),
        exhaustive: true,
        required_witnesses: vec!["truncated replies over an ending connection rejected".into(), "short bodies decoded".into(), "short bodies rejected".into(), "substituted packets still decoded".into(), "structure-aware edits still decoded".into()],
        assumptions: vec![
            "release build with overflow-checks = true stands for 'debug and release decode identically'".into(),
            "byte strings beyond the stated mutation operators are not covered".into(),
        ],
        bounds: json!({"short_body_len": maxlen, "corpus": items.len(), "alloc_limit": "1024 x input + 64 KiB", "loop_watchdog_s": 20}),
        caps_hit: vec![],
        evaluations_counter: "evaluations".into(),
        acc,
    }
}
