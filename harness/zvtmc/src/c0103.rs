//! C01 - every packet value survives serialise -> deserialise unchanged.
//! C03 - shipped packets use the wire layout of the layout table (both directions).
use crate::cs::*;
use crate::real::*;
use crate::util::*;
use serde_json::json;
use vcore::codec::*;
use vcore::layout::*;
use vcore::report::*;
use vcore::values::nonbaseline_fields;

pub fn run(run: &RunInfo, c03: bool) -> Summary {
    let table = shipped();
    let k = if run.thorough() { 4 } else { 3 };
    let types = table.all();
    let reg = registry();
    let nats = natives();
    let mut items: Vec<(usize, Slice)> = vec![];
    for (ti, ty) in types.iter().enumerate() {
        for s in slices(&table, ty) {
            items.push((ti, s));
        }
    }
    // big slices first for better balance
    items.sort_by_key(|(ti, s)| match s {
        Slice::First(i) => -((types[*ti].fields.len() - *i) as i64) * 10,
        _ => 0,
    });
    let pid = if c03 { "c03" } else { "c01" };
    let mut acc = par_for(items.len(), |ix, acc| {
        let (ti, slice) = &items[ix];
        let ty = types[*ti];
        let codec = Codec::new(&table);
        let real = reg.iter().find(|r| r.key == ty.key).unwrap_or_else(|| panic!("no real type for {}", ty.key));
        let nat = nats.iter().find(|n| n.key == ty.key);
        visit_slice(&table, ty, slice, k, &mut |v, origin| {
            acc.count("values_generated", 1);
            let Some(bytes) = codec.canonical(ty, v) else {
                acc.count("values_skipped_non_canonical", 1);
                acc.count(&format!("skipped:{}", ty.key), 1);
                return;
            };
            acc.count("canonical_values", 1);
            acc.count(&format!("canonical:{}", ty.key), 1);
            acc.set("values", h64(&(ty.key.as_str(), &bytes)));
            if bytes.len() >= 258 {
                acc.witness("extended APDU length header used");
            }
            let mut nb = vec![];
            nonbaseline_fields(&table, ty, v, "", &mut nb);
            for f in &nb {
                acc.set("fields_non_baseline", h64(f));
            }
            let want_debug = codec.debug_string(ty, v);
            let rank = bytes.len() as u64;
            let mk_key = |what: &str| format!("{pid}/{}/{}/{what}/{:016x}", ty.key, deviating(&table, ty, v), h64(&bytes));
            let describe = |extra: String| {
                format!(
                    "type {} ({origin})\nvalue      : {want_debug}\nref bytes  : {}\n{extra}",
                    ty.key,
                    hex_short(&bytes)
                )
            };
            if acc.samples.len() < 3 && !nb.is_empty() {
                acc.sample(json!({"type": ty.key, "value": want_debug, "reference_bytes": hex_short(&bytes), "origin": origin}));
            }
            if !c03 {
                // ---- C01: x = V (native) ; B' = encode(x) ; decode(B') == (x, empty)
                acc.count("calls", 2);
                match nat {
                    Some(n) => match guarded(|| (n.run)(v)) {
                        Err(p) => acc.violation(viol(mk_key("panic"), describe(format!("serialise/deserialise panicked: {p}")), rank)),
                        Ok(out) => {
                            acc.count("roundtrips_native", 1);
                            match &out.back {
                                Ok((true, 0, _)) => {}
                                Ok((eq, rest, dy)) => acc.violation(viol(
                                    mk_key("roundtrip"),
                                    describe(format!(
                                        "real value  : {}\nreal bytes  : {}\ndecoded back: {dy}\nequal: {eq}, bytes left over: {rest}",
                                        out.debug_x,
                                        hex_short(&out.bytes)
                                    )),
                                    rank,
                                )),
                                Err(e) => acc.violation(viol(
                                    mk_key("roundtrip"),
                                    describe(format!("real value  : {}\nreal bytes  : {}\ndecoding them again fails: {e}", out.debug_x, hex_short(&out.bytes))),
                                    rank,
                                )),
                            }
                        }
                    },
                    None => match guarded(|| (real.decode_full)(&bytes)) {
                        // private fields: the value can only be obtained by decoding the reference bytes
                        Err(p) => acc.violation(viol(mk_key("panic"), describe(format!("deserialise/serialise panicked: {p}")), rank)),
                        Ok(Err(_)) => acc.count("unconstructible", 1),
                        Ok(Ok(d)) => {
                            acc.count("roundtrips_via_decode", 1);
                            if !d.rt_equal || d.rt_rest != 0 {
                                acc.violation(viol(
                                    mk_key("roundtrip"),
                                    describe(format!(
                                        "real value  : {}\nreal bytes  : {}\nequal after decode: {}, left over: {}, error: {:?}",
                                        d.debug,
                                        hex_short(&d.reenc),
                                        d.rt_equal,
                                        d.rt_rest,
                                        d.rt_err
                                    )),
                                    rank,
                                ));
                            }
                        }
                    },
                }
            } else {
                // ---- C03 (->): reference bytes decode into exactly the named fields
                acc.count("calls", 2);
                match guarded(|| (real.decode)(&bytes)) {
                    Err(p) => acc.violation(viol(mk_key("decode-panic"), describe(format!("decoding the reference bytes panicked: {p}")), rank)),
                    Ok(Err(e)) => acc.violation(viol(mk_key("decode"), describe(format!("decoding the reference bytes fails: {e:?}")), rank)),
                    Ok(Ok((dbg, rest, _))) => {
                        if dbg != want_debug || rest != 0 {
                            acc.violation(viol(mk_key("decode"), describe(format!("decoded as  : {dbg}\nbytes left over: {rest}")), rank));
                        } else {
                            acc.count("decoded_equal", 1);
                        }
                    }
                }
                // ---- C03 (<-): the real encoder produces the identical bytes
                let enc: Result<Option<Vec<u8>>, String> = match nat {
                    Some(n) => guarded(|| Some((n.encode)(v))),
                    None => guarded(|| (real.decode_full)(&bytes).ok().map(|d| d.reenc)),
                };
                match enc {
                    Err(p) => acc.violation(viol(mk_key("encode-panic"), describe(format!("encoding panicked: {p}")), rank)),
                    Ok(None) => {}
                    Ok(Some(e)) => {
                        if e != bytes {
                            acc.violation(viol(mk_key("encode"), describe(format!("real bytes : {}", hex_short(&e))), rank));
                        } else {
                            acc.count("encoded_identical", 1);
                        }
                    }
                }
            }
        });
    });
    // coverage witness: every field of every type non-baseline in at least one canonical value
    // Decoding is a function of the bytes alone: a value must come back the same whatever the same
    // thread decoded before, rejected inputs included (a counter, memo or scratch buffer that an
    // error path leaves behind). On one thread: every truncation of the all-present and baseline
    // rows of a type is fed to its decoder (accepted or rejected, either is fine), and after each
    // type every collected row of every type is decoded and re-encoded again.
    if !c03 && !skip_for_replay(run, "c01/after-rejected/") {
        let part = par_for(1, |_, acc| {
            let codec = Codec::new(&table);
            let mut rows: Vec<(usize, Vec<u8>, String)> = vec![];
            for (ti, ty) in types.iter().enumerate() {
                for sl in [Slice::Baseline, Slice::AllPresent] {
                    let mut n = 0;
                    visit_slice(&table, ty, &sl, 1, &mut |v, _| {
                        if n < 8 {
                            if let Some(b) = codec.canonical(ty, v) {
                                if !rows.iter().any(|(t, x, _)| *t == ti && *x == b) {
                                    rows.push((ti, b, codec.debug_string(ty, v)));
                                    n += 1;
                                }
                            }
                        }
                    });
                }
            }
            let check_all = |after: &str, acc: &mut Acc| {
                for (ti, b, want) in &rows {
                    let ty = types[*ti];
                    let real = reg.iter().find(|r| r.key == ty.key).unwrap();
                    acc.count("calls", 2);
                    acc.count("after_rejected_checks", 1);
                    let key = format!("c01/after-rejected/{}/{:016x}/after={after}", ty.key, h64(b));
                    match guarded(|| (real.decode_full)(b)) {
                        Err(p) => acc.violation(viol(key, format!("type {}: after the truncated inputs of {after} had been decoded on this thread, decoding {} panicked: {p}", ty.key, hex_short(b)), 0)),
                        Ok(Err(e)) => acc.violation(viol(key, format!("type {}: after the truncated inputs of {after} had been decoded on this thread, the valid bytes {} are rejected: {e:?}\nvalue: {want}", ty.key, hex_short(b)), 0)),
                        Ok(Ok(d)) => {
                            if d.debug != *want || d.reenc != *b || !d.rt_equal || d.rt_rest != 0 {
                                acc.violation(viol(key, format!("type {}: after the truncated inputs of {after} had been decoded on this thread, {} decodes to\n  {}\ninstead of\n  {want}\n(re-encoded {}, equal after a second decode: {}, left over {})", ty.key, hex_short(b), d.debug, hex_short(&d.reenc), d.rt_equal, d.rt_rest), 0));
                            }
                        }
                    }
                }
            };
            check_all("nothing", acc);
            for (ti, ty) in types.iter().enumerate() {
                let real = reg.iter().find(|r| r.key == ty.key).unwrap();
                for (t, b, _) in &rows {
                    if *t != ti {
                        continue;
                    }
                    for cut in 0..b.len() {
                        acc.count("calls", 1);
                        acc.count("truncated_inputs_fed", 1);
                        let _ = guarded(|| (real.decode_quiet)(&b[..cut]).is_ok());
                    }
                }
                check_all(&ty.key, acc);
            }
            acc.witness("values decoded again after rejected inputs on the same thread");
        });
        acc.merge(part);
    }
    let mut total_fields = 0u64;
    for ty in &types {
        total_fields += ty.fields.len() as u64;
    }
    let covered = acc.set_len("fields_non_baseline");
    if covered >= total_fields {
        acc.witness("every field of every type is non-baseline in some canonical value");
    } else {
        acc.notes.push(format!("only {covered} of {total_fields} fields were non-baseline in a canonical value"));
    }
    let canon = acc.get("canonical_values");
    acc.count("evaluations", canon);
    let distinct = acc.set_len("values");
    let (rule, required) = if c03 {
        (
            format!("55 shipped types x all canonical values with <= {k} deviating fields (5.2 alphabets) + all-present rows + rows with 4..1000 items in every repeated field + sizing rows (every variable-length leaf sized 0..=300 and to 19 larger sizes around 512, 768, 1000, 1280, 4096, 32768, 65280); each value: reference bytes -> real decoder must give exactly the named fields, real encoder must give the identical bytes. distinct_nontrivial = distinct (type, reference bytes) pairs"),
            vec!["every field of every type is non-baseline in some canonical value".to_string(), "extended APDU length header used".to_string()],
        )
    } else {
        (
            format!("55 shipped types x all canonical values with <= {k} deviating fields (5.2 alphabets) + all-present rows + rows with 4..1000 items in every repeated field + sizing rows; each value is constructed natively, serialised and deserialised by the real code and compared with the type's own PartialEq; then, on one thread, every truncation of the baseline and all-present rows of each type is fed to its decoder and after each type every such row of every type is decoded and re-encoded again (the result must not depend on what was decoded or rejected before). distinct_nontrivial = distinct (type, reference bytes) pairs"),
            vec!["every field of every type is non-baseline in some canonical value".to_string(), "extended APDU length header used".to_string(), "values decoded again after rejected inputs on the same thread".to_string()],
        )
    };
    Summary {
        states: distinct,
        transitions: acc.get("calls"),
        traces_validated: canon,
        distinct_nontrivial: distinct,
        rule,
        exhaustive: true,
        required_witnesses: required,
        assumptions: vec![
            "canonical domain = fixed points of the reference codec (DESIGN.md 5.1)".into(),
            "field alphabets of DESIGN.md 5.2, not full value ranges; at most k simultaneously deviating fields except the all-present rows".into(),
            if c03 { "the layout table restates the pinned commit's layout for fields no captured blob contains (DESIGN.md 5.3)".into() } else { "3 types with private fields (SelectLanguage, tlv::StatusEnquiry, StatusEnquiry) are constructed by decoding reference bytes".into() },
        ],
        bounds: json!({"deviating_fields_k": k, "vec_lengths": "0..=3", "sizing": "0..=300 + 19 sizes up to 65280"}),
        caps_hit: vec![],
        evaluations_counter: "evaluations".into(),
        acc,
    }
}
