//! feig WriteFile (firmware upload): payload directories on disk, the runner over a
//! ScriptedStream, the C05 part for this sequence and the whole of C11.
use crate::c05::{render_events, verify, Answer, Exchange};
use crate::seqs::*;
use crate::sim::*;
use crate::util::*;
use serde_json::json;
use std::cell::RefCell;
use std::path::PathBuf;
use std::rc::Rc;
use vcore::codec::*;
use vcore::dbx::Ctx;
use vcore::layout::*;
use vcore::report::*;
use zvt::io::PacketTransport;

pub const RECOGNISED: [(&str, u8); 21] = [
    ("firmware/kernel.gz", 0x10),
    ("firmware/rootfs.gz", 0x11),
    ("firmware/components.tar.gz", 0x12),
    ("firmware/update.spec", 0x13),
    ("firmware/update_extended.spec", 0x14),
    ("app0/update.spec", 0x20),
    ("app0/update.tar.gz", 0x21),
    ("app1/update.spec", 0x22),
    ("app1/update.tar.gz", 0x23),
    ("app2/update.spec", 0x24),
    ("app2/update.tar.gz", 0x25),
    ("app3/update.spec", 0x26),
    ("app3/update.tar.gz", 0x27),
    ("app4/update.spec", 0x28),
    ("app4/update.tar.gz", 0x29),
    ("app5/update.spec", 0x30),
    ("app5/update.tar.gz", 0x31),
    ("app6/update.spec", 0x32),
    ("app6/update.tar.gz", 0x33),
    ("app7/update.spec", 0x34),
    ("app7/update.tar.gz", 0x35),
];

const UNRELATED: [&str; 4] = ["firmware/readme.txt", "app8/update.spec", "kernel.gz", "app0/update.spec.bak"];

pub struct Silencer(i32);
/// The sequence under test prints to stdout; keep it out of the check's own output.
pub fn silence_stdout() -> Silencer {
    use std::io::Write;
    let _ = std::io::stdout().flush();
    unsafe {
        let saved = libc::dup(1);
        let null = libc::open(b"/dev/null\0".as_ptr() as *const libc::c_char, libc::O_WRONLY);
        if null >= 0 {
            libc::dup2(null, 1);
            libc::close(null);
        }
        Silencer(saved)
    }
}
impl Drop for Silencer {
    fn drop(&mut self) {
        use std::io::Write;
        let _ = std::io::stdout().flush();
        unsafe {
            if self.0 >= 0 {
                libc::dup2(self.0, 1);
                libc::close(self.0);
            }
        }
    }
}

/// position dependent content keyed by (file id, offset): a wrong file or offset cannot give the
/// right bytes
pub fn content(id: u8, seed: u64, size: usize) -> Vec<u8> {
    (0..size).map(|o| ((o as u64).wrapping_mul(31).wrapping_add((o as u64 >> 8).wrapping_mul(131)).wrapping_add(id as u64 * 7 + seed * 3 + 1) & 0xff) as u8).collect()
}

#[derive(Clone, Debug)]
pub struct DirSpec {
    pub files: Vec<(u8, usize)>, // (file id, size)
    pub unrelated: bool,
    pub path: PathBuf,
}

pub fn make_dir(root: &PathBuf, idx: usize, files: &[(u8, usize)], unrelated: bool, seed: u64) -> DirSpec {
    let path = root.join(format!("d{idx}"));
    let _ = std::fs::remove_dir_all(&path);
    std::fs::create_dir_all(&path).expect("MACHINERY: cannot create scratch directory");
    for (id, size) in files {
        let rel = RECOGNISED.iter().find(|(_, i)| i == id).unwrap().0;
        let p = path.join(rel);
        std::fs::create_dir_all(p.parent().unwrap()).unwrap();
        std::fs::write(&p, content(*id, seed, *size)).unwrap();
    }
    if unrelated {
        for (k, rel) in UNRELATED.iter().enumerate() {
            // do not shadow a recognised file
            if RECOGNISED.iter().any(|(r, _)| r == rel) {
                continue;
            }
            let p = path.join(rel);
            std::fs::create_dir_all(p.parent().unwrap()).unwrap();
            std::fs::write(&p, vec![0xee; 5 + k]).unwrap();
        }
    }
    DirSpec { files: files.to_vec(), unrelated, path }
}

pub fn scratch_root(tag: &str) -> PathBuf {
    let root = PathBuf::from(format!("/verif/harness/target/scratch/{tag}-{}", std::process::id()));
    let _ = std::fs::remove_dir_all(&root);
    std::fs::create_dir_all(&root).expect("MACHINERY: cannot create scratch root");
    root
}

pub fn run_writefile(dir: &PathBuf, password: usize, block: u32, s: &Scripted, stop_after: Option<&dyn Fn(&str) -> bool>) -> RunLog {
    let r = guarded(|| {
        let mut l = RunLog::default();
        let mut tr = PacketTransport { source: s.clone() };
        let mut stream = zvt::feig::sequences::WriteFile::into_stream(dir.clone(), password, block, &mut tr);
        pump(&mut stream, s, stop_after, &mut l);
        l
    });
    match r {
        Ok(l) => l,
        Err(p) => RunLog { panic: Some(p), ..RunLog::default() },
    }
}

/// a data request as the terminal sends it
#[derive(Clone, Debug, PartialEq)]
pub enum Req {
    Data { id: Option<u8>, offset: Option<u32> },
    NoFile,
    NoTlv,
}

impl Req {
    pub fn value(&self) -> Val {
        // feig::RequestForData { tlv: Option<WriteData { file: Option<File {file_id, file_offset, file_size, payload}> }> }
        match self {
            Req::NoTlv => Val::Struct(vec![Val::None]),
            Req::NoFile => Val::Struct(vec![Val::some(Val::Struct(vec![Val::None]))]),
            Req::Data { id, offset } => Val::Struct(vec![Val::some(Val::Struct(vec![Val::some(Val::Struct(vec![
                id.map(|i| Val::some(Val::Int(i as u64))).unwrap_or(Val::None),
                offset.map(|o| Val::some(Val::Int(o as u64))).unwrap_or(Val::None),
                Val::None,
                Val::None,
            ]))]))]),
        }
    }
    pub fn label(&self) -> String {
        match self {
            Req::NoTlv => "no-tlv".into(),
            Req::NoFile => "no-file".into(),
            Req::Data { id, offset } => format!("req({},{})", id.map(|i| format!("{i:02x}")).unwrap_or("-".into()), offset.map(|o| o.to_string()).unwrap_or("-".into())),
        }
    }
}

fn write_data_bytes(codec: &Codec, table: &Table, id: u8, offset: u32, payload: &[u8]) -> Vec<u8> {
    let v = Val::Struct(vec![Val::some(Val::Struct(vec![Val::some(Val::Struct(vec![
        Val::some(Val::Int(id as u64)),
        Val::some(Val::Int(offset as u64)),
        Val::None,
        if payload.is_empty() { Val::None } else { Val::some(Val::Bytes(payload.to_vec())) },
    ]))]))]);
    codec.encode(table.get("feig::WriteData"), &v).expect("reference WriteData")
}

pub struct Upload<'a> {
    pub dir: &'a DirSpec,
    pub seed: u64,
    pub block: u32,
    pub password: usize,
    pub requests: Vec<Req>,
    /// Some(true): completion, Some(false): abort, None: the script ends with the last request
    pub finish: Option<bool>,
    pub dropped: bool,
}

/// Runs one upload and checks it against the statement of C11 / C05. Returns (problems, events).
pub fn check_upload(table: &Table, up: &Upload) -> (Vec<String>, Vec<Ev>) {
    check_upload_paused(table, up, None)
}

/// `pause`: the terminal pauses for so many (virtual) milliseconds once it has sent exactly so many
/// bytes, wherever in a packet that is.
pub fn check_upload_paused(table: &Table, up: &Upload, pause: Option<(usize, u64)>) -> (Vec<String>, Vec<Ev>) {
    let codec = Codec::new(table);
    let req_ty = table.get("feig::RequestForData");
    let mut incoming = ACK.to_vec();
    let mut packets: Vec<Vec<u8>> = vec![];
    for r in &up.requests {
        packets.push(codec.encode(req_ty, &r.value()).expect("reference request"));
    }
    match up.finish {
        Some(true) => packets.push(vec![0x06, 0x0f, 0x00]),
        Some(false) => packets.push(vec![0x06, 0x1e, 0x01, 0x6c]),
        None => {}
    }
    for p in &packets {
        incoming.extend(p);
    }
    let trailer = [0x06u8, 0xd1, 0x01, 0x00];
    incoming.extend(trailer);
    let mut ctx = Ctx::new(vec![], vec![], 0);
    let sh: Sh = Rc::new(RefCell::new(std::mem::replace(&mut ctx, Ctx::new(vec![], vec![], 0))));
    let s = Scripted::new(sh, incoming, Chunking::Greedy);
    if let Some((at, ms)) = pause {
        s.st.borrow_mut().pause_at = Some((at, std::time::Duration::from_millis(ms)));
    }
    let is_final = |v: &str| v == "CompletionData" || v == "Abort";
    let stop: Option<&dyn Fn(&str) -> bool> = if up.dropped { Some(&is_final) } else { None };
    let log = run_writefile(&up.dir.path, up.password, up.block, &s, stop);
    let events = s.st.borrow().log.clone();
    let mut problems = vec![];
    if let Some(p) = &log.panic {
        return (vec![format!("the upload panicked: {p}")], events);
    }
    // no recognised file: an error without any traffic
    if up.dir.files.is_empty() {
        let writes = events.iter().filter(|e| matches!(e, Ev::Write(_))).count();
        if writes != 0 || log.items.len() != 1 || log.items[0].is_ok() {
            problems.push(format!("directory without recognised files: expected one error and no traffic, got items {:?} and {writes} writes", log.items));
        }
        return (problems, events);
    }
    // the manifest
    let Some(Ev::Write(cmd)) = events.first() else {
        return (vec!["the first event must be the write of the file list".into()], events);
    };
    match codec.decode(table.get("feig::WriteFile"), cmd) {
        Ok((v, used)) if used == cmd.len() => {
            let pw = v.fields()[0].int();
            if pw != up.password as u64 {
                problems.push(format!("file list carries password {pw}, configured {}", up.password));
            }
            let mut got: Vec<(u64, u64)> = vec![];
            if let Some(t) = v.fields()[1].inner() {
                if let Val::List(l) = &t.fields()[0] {
                    for f in l {
                        let ff = f.fields();
                        let id = ff[0].inner().map(|x| x.int());
                        let size = ff[2].inner().map(|x| x.int());
                        if id.is_none() || size.is_none() {
                            problems.push(format!("file list entry must carry the file id and its size: {f:?}"));
                        }
                        got.push((id.unwrap_or(999), size.unwrap_or(0)));
                    }
                }
            }
            got.sort();
            let mut want: Vec<(u64, u64)> = up.dir.files.iter().map(|(i, s)| (*i as u64, *s as u64)).collect();
            want.sort();
            if got != want {
                problems.push(format!("announced file list {got:?} differs from the recognised files present with their true sizes {want:?}"));
            }
        }
        other => problems.push(format!("the file list {} is not a well-formed WriteFile packet: {other:?}", hex_short(cmd))),
    }
    if !problems.is_empty() {
        return (problems, events);
    }
    // the exchange: valid requests are answered with the block, the first invalid one ends it
    let mut script: Vec<(&[u8], String, Answer)> = vec![];
    let mut failing: Option<usize> = None;
    for (k, r) in up.requests.iter().enumerate() {
        let dbg = format!("RequestForData({})", codec.debug_string(req_ty, &r.value()));
        match r {
            Req::Data { id: Some(id), offset: Some(off) } if up.dir.files.iter().any(|(i, _)| i == id) => {
                let size = up.dir.files.iter().find(|(i, _)| i == id).unwrap().1;
                let data = content(*id, up.seed, size);
                let start = (*off as usize).min(size);
                let end = (start + up.block as usize).min(size);
                script.push((&packets[k][..], dbg, Answer::Data { id: *id, offset: *off, payload: data[start..end].to_vec() }));
            }
            _ => {
                failing = Some(k);
                break;
            }
        }
    }
    match failing {
        None => {
            if let Some(fin) = up.finish {
                let dbg = if fin { "CompletionData(CompletionData { result_code: None, status_byte: None, terminal_id: None, currency: None })".to_string() } else { "Abort(Abort { error: 108 })".to_string() };
                script.push((&packets[packets.len() - 1][..], dbg, Answer::Ack));
                let ex = Exchange { cmd, script, trailer: &trailer, dropped: up.dropped };
                problems.extend(verify(&ex, &events, &log));
                let total: usize = 3 + packets.iter().map(|p| p.len()).sum::<usize>();
                if problems.is_empty() && s.consumed() != total {
                    problems.push(format!("the upload consumed {} bytes, the exchange ends at {total}", s.consumed()));
                }
            }
        }
        Some(k) => {
            // items 0..k, then exactly one error, then the end; no data block after the failing request was read
            let ok_items = log.items.iter().take_while(|i| i.is_ok()).count();
            if ok_items != k || log.items.len() != k + 1 || log.items.get(k).map(|i| i.is_ok()).unwrap_or(true) || !log.ended {
                problems.push(format!("request {k} ({}) is invalid: expected {k} items, then exactly one error, then the end; got {:?} (ended={})", up.requests[k].label(), log.items.iter().map(|i| i.as_ref().map(|s| s.chars().take(40).collect::<String>()).map_err(|e| e.chars().take(60).collect::<String>())).collect::<Vec<_>>(), log.ended));
            }
            let mut end = 3;
            for p in packets.iter().take(k) {
                end += p.len();
            }
            // position in the log where the first byte of the failing packet was read
            let mut seen_fail_read = false;
            for e in &events {
                match e {
                    Ev::Read(_, p) if *p > end => seen_fail_read = true,
                    Ev::Write(w) if seen_fail_read => problems.push(format!("after the invalid request was read the upload still wrote {}", hex_short(w))),
                    _ => {}
                }
            }
            // and the valid prefix was served correctly
            let mut it = events.iter();
            it.next();
            let mut idx = 0;
            for e in it {
                if let Ev::Write(w) = e {
                    if idx < k {
                        if !script[idx].2.satisfied_by(w) {
                            problems.push(format!("answer to request {idx} is {} expected {}", hex_short(w), script[idx].2.describe()));
                        }
                        idx += 1;
                    }
                }
            }
        }
    }
    (problems, events)
}

// ---------------------------------------------------------------- C05 part

pub fn c05_part(run: &RunInfo) -> Acc {
    let table = shipped();
    let root = scratch_root("c05");
    let block = 8u32;
    let dir = make_dir(&root, 0, &[(0x10, 17), (0x13, 7)], true, run.seed);
    let reqs: Vec<Req> = vec![
        Req::Data { id: Some(0x10), offset: Some(0) },
        Req::Data { id: Some(0x10), offset: Some(8) },
        Req::Data { id: Some(0x10), offset: Some(16) },
        Req::Data { id: Some(0x13), offset: Some(0) },
        Req::Data { id: Some(0x13), offset: Some(7) },
    ];
    let depth = if run.thorough() { 4 } else { 3 };
    let mut words: Vec<Vec<usize>> = vec![vec![]];
    let mut cur: Vec<Vec<usize>> = vec![vec![]];
    for _ in 0..depth {
        let mut next = vec![];
        for w in &cur {
            for r in 0..reqs.len() {
                let mut x = w.clone();
                x.push(r);
                next.push(x);
            }
        }
        words.extend(next.clone());
        cur = next;
    }
    let acc = par_for(words.len(), |ix, acc| {
        let w = &words[ix];
        for fin in [true, false] {
            for dropped in [false, true] {
                let up = Upload { dir: &dir, seed: run.seed, block, password: 123456, requests: w.iter().map(|i| reqs[*i].clone()).collect(), finish: Some(fin), dropped };
                let (problems, events) = check_upload(&table, &up);
                acc.count("executions", 1);
                acc.count("transitions", (w.len() + 2) as u64);
                acc.set("outcomes", h64(&("WriteFile", w, fin, dropped)));
                if !w.is_empty() && problems.is_empty() {
                    acc.witness("data requests answered with the data block");
                }
                if !problems.is_empty() {
                    let name: Vec<String> = up.requests.iter().map(|r| r.label()).collect();
                    acc.violation(viol(
                        format!("c05/WriteFile/script={}/{}/dropped={dropped}", name.join(","), if fin { "completion" } else { "abort" }),
                        format!("firmware upload, block size {block}, files {:?}\nrequests: {}\nended by {}; caller {}\n{}\nevent log:\n{}", dir.files, name.join(", "), if fin { "completion" } else { "abort" }, if dropped { "stops after the final packet" } else { "drains" }, problems.join("\n"), render_events(&events)),
                        w.len() as u64,
                    ));
                }
            }
        }
    });
    let _ = std::fs::remove_dir_all(&root);
    acc
}

// ---------------------------------------------------------------- C06 part

/// Faults in the firmware upload: every valid request prefix (incl. those after which every byte
/// of the file has been sent) x every fault in the next slot, and faults in the place of the
/// acknowledgement of the file list.
pub fn c06_part(run: &RunInfo) -> Acc {
    let table = shipped();
    let codec = Codec::new(&table);
    let root = scratch_root("c06");
    let block = 8u32;
    let dir = make_dir(&root, 0, &[(0x10, 17)], false, run.seed);
    let req_ty = table.get("feig::RequestForData");
    let reqs: Vec<Req> = vec![Req::Data { id: Some(0x10), offset: Some(0) }, Req::Data { id: Some(0x10), offset: Some(8) }, Req::Data { id: Some(0x10), offset: Some(16) }];
    let req_bytes: Vec<Vec<u8>> = reqs.iter().map(|r| codec.encode(req_ty, &r.value()).expect("reference request")).collect();
    let depth = if run.thorough() { 4 } else { 3 };
    let mut words: Vec<Vec<usize>> = vec![vec![]];
    let mut cur: Vec<Vec<usize>> = vec![vec![]];
    for _ in 0..depth {
        let mut next = vec![];
        for w in &cur {
            for r in 0..reqs.len() {
                let mut x = w.clone();
                x.push(r);
                next.push(x);
            }
        }
        words.extend(next.clone());
        cur = next;
    }
    let completion = vec![0x06u8, 0x0f, 0x00];
    // (label, bytes, complete packet?)
    let mut faults: Vec<(String, Vec<u8>, bool)> = vec![
        ("end-of-stream".into(), vec![], false),
        ("nack-849a".into(), vec![0x84, 0x9a, 0x00], true),
        ("nack-8400".into(), vec![0x84, 0x00, 0x00], true),
        ("ack-in-reply-slot".into(), vec![0x80, 0x00, 0x00], true),
        ("foreign-040f".into(), vec![0x04, 0x0f, 0x00], true),
        ("foreign-04ff".into(), vec![0x04, 0xff, 0x01, 0x17], true),
        ("foreign-06d1".into(), vec![0x06, 0xd1, 0x02, 0x00, 0x41], true),
        ("neighbour-060e".into(), vec![0x06, 0x0e, 0x00], true),
        ("neighbour-08d0".into(), vec![0x08, 0xd0, 0x00], true),
        ("abort-without-code".into(), vec![0x06, 0x1e, 0x00], true),
    ];
    // data requests the upload cannot serve: a file that was not announced, no id, no offset, no
    // file container, no TLV container
    for (label, r) in [
        ("request-for-unknown-file-77", Req::Data { id: Some(0x77), offset: Some(0) }),
        ("request-for-absent-file-13", Req::Data { id: Some(0x13), offset: Some(0) }),
        ("request-without-id", Req::Data { id: None, offset: Some(0) }),
        ("request-without-offset", Req::Data { id: Some(0x10), offset: None }),
        ("request-without-file", Req::NoFile),
        ("request-without-tlv", Req::NoTlv),
    ] {
        faults.push((label.to_string(), codec.encode(req_ty, &r.value()).expect("reference request"), true));
    }
    for cut in 1..completion.len() {
        faults.push((format!("completion-cut-at-{cut}"), completion[..cut].to_vec(), false));
    }
    for cut in 1..req_bytes[0].len() {
        faults.push((format!("request-cut-at-{cut}"), req_bytes[0][..cut].to_vec(), false));
    }
    {
        // a data request whose announced container length exceeds its content
        let mut b = req_bytes[0].clone();
        assert_eq!(b[3..5], [0x06, 0x0b], "layout of the reference data request");
        b[4] = 0x0c;
        faults.push(("request-inner-length-too-long".into(), b, true));
    }
    let acc = par_for(words.len(), |ix, acc| {
        let w = &words[ix];
        for (label, fault, complete) in &faults {
            for ack_slot in [false, true] {
                if ack_slot && (!w.is_empty() || label == "ack-in-reply-slot") {
                    continue;
                }
                for continued in [false, true] {
                    if continued && !*complete {
                        continue;
                    }
                    let mut incoming = vec![];
                    if !ack_slot {
                        incoming.extend(ACK);
                    }
                    let mut boundary = incoming.len();
                    for i in w {
                        incoming.extend(&req_bytes[*i]);
                    }
                    boundary += w.iter().map(|i| req_bytes[*i].len()).sum::<usize>();
                    incoming.extend(fault);
                    if continued {
                        if ack_slot {
                            incoming.extend(&completion);
                        } else {
                            incoming.extend(ACK);
                            incoming.extend(&completion);
                        }
                    }
                    let sh: Sh = Rc::new(RefCell::new(Ctx::new(vec![], vec![], 0)));
                    let s = Scripted::new(sh, incoming.clone(), Chunking::Greedy);
                    s.st.borrow_mut().eof_at = Some(incoming.len());
                    let log = run_writefile(&dir.path, 123456, block, &s, None);
                    let events = s.st.borrow().log.clone();
                    acc.count("executions", 1);
                    acc.count("fault_cases", 1);
                    acc.count("transitions", (w.len() + 2) as u64);
                    acc.set("outcomes", h64(&("WriteFile", w, label, ack_slot, continued)));
                    let mut problems = vec![];
                    if let Some(p) = &log.panic {
                        problems.push(format!("the upload panicked: {p}"));
                    } else {
                        let k = w.len();
                        let ok_items = log.items.iter().take_while(|i| i.is_ok()).count();
                        if ok_items != k || log.items.len() != k + 1 || log.items.get(k).map(|i| i.is_ok()).unwrap_or(true) || !log.ended || log.polls_after_end_not_none > 0 {
                            problems.push(format!("expected the {k} data requests as items, then exactly one error, then the end of the stream; got {:?} (ended={}, blocked={})", log.items.iter().map(|i| i.as_ref().map(|s| s.chars().take(30).collect::<String>()).map_err(|e| e.chars().take(60).collect::<String>())).collect::<Vec<_>>(), log.ended, log.blocked));
                        }
                        // nothing may be written once the offending bytes were read
                        let mut seen = false;
                        for e in &events {
                            match e {
                                Ev::Read(_, p) if *p > boundary => seen = true,
                                Ev::Eof => seen = true,
                                Ev::Write(wr) if seen => problems.push(format!("after the fault was read the upload still wrote {}", hex_short(wr))),
                                _ => {}
                            }
                        }
                        // the number of answers equals the number of requests served
                        let writes = events.iter().filter(|e| matches!(e, Ev::Write(_))).count();
                        if problems.is_empty() && writes != 1 + k {
                            problems.push(format!("{writes} writes for the file list and {k} data requests"));
                        }
                    }
                    if problems.is_empty() {
                        acc.count("w_upload_fault_reported", 1);
                        if w.contains(&2) && w.contains(&0) && w.contains(&1) {
                            acc.count("w_upload_fault_after_last_byte", 1);
                        }
                    } else {
                        let name: Vec<String> = w.iter().map(|i| reqs[*i].label()).collect();
                        acc.violation(viol(
                            format!("c06/WriteFile/prefix={}/{}={label}/continued={continued}", name.join(","), if ack_slot { "ack-slot" } else { "fault" }),
                            format!("firmware upload of one 17-byte file, block size {block}\nrequests served before the fault: {}\nfault {label} ({}) in the {} slot, followed by {}\n{}\nevent log:\n{}", name.join(", "), hex_short(fault), if ack_slot { "acknowledgement" } else { "next reply" }, if continued { "a well-formed rest of the exchange" } else { "the end of the stream" }, problems.join("\n"), render_events(&events)),
                            w.len() as u64,
                        ));
                    }
                }
            }
        }
    });
    // the connection breaks on the writing side: write number w fails (0 = the file list, j = the
    // data block answering request j, last = the acknowledgement of the completion)
    let wacc = par_for(words.len(), |ix, acc| {
        let w = &words[ix];
        for (fin_label, fin_bytes) in [("completion", completion.clone()), ("abort", vec![0x06u8, 0x1e, 0x01, 0x6c])] {
        for wf in 0..=w.len() + 1 {
            let mut incoming = ACK.to_vec();
            for i in w {
                incoming.extend(&req_bytes[*i]);
            }
            incoming.extend(&fin_bytes);
            let sh: Sh = Rc::new(RefCell::new(Ctx::new(vec![], vec![], 0)));
            let s = Scripted::new(sh, incoming.clone(), Chunking::Greedy);
            s.st.borrow_mut().eof_at = Some(incoming.len());
            s.st.borrow_mut().fail_write_call = Some(wf);
            let log = run_writefile(&dir.path, 123456, block, &s, None);
            let events = s.st.borrow().log.clone();
            acc.count("executions", 1);
            acc.count("fault_cases", 1);
            acc.count("kind:write-failure", 1);
            acc.count("transitions", (w.len() + 2) as u64);
            acc.set("outcomes", h64(&("WriteFile", w, "write-failure", wf, fin_label)));
            let yielded = wf.saturating_sub(1);
            let mut problems = vec![];
            if let Some(p) = &log.panic {
                problems.push(format!("the upload panicked: {p}"));
            } else {
                let ok_items = log.items.iter().take_while(|i| i.is_ok()).count();
                if ok_items != yielded || log.items.len() != yielded + 1 || !log.ended || log.blocked || log.polls_after_end_not_none > 0 {
                    problems.push(format!("expected {yielded} items, then exactly one error, then the end of the stream; got {:?} (ended={}, blocked={})", log.items.iter().map(|i| i.as_ref().map(|s| s.chars().take(30).collect::<String>()).map_err(|e| e.chars().take(60).collect::<String>())).collect::<Vec<_>>(), log.ended, log.blocked));
                }
                let refused = events.iter().filter(|e| matches!(e, Ev::Mark(m) if m.contains("refused"))).count();
                if refused != 1 {
                    problems.push(format!("{refused} writes were attempted on the broken connection (expected the failing one only)"));
                }
                let writes = events.iter().filter(|e| matches!(e, Ev::Write(_))).count();
                if writes != wf.min(w.len() + 2) {
                    problems.push(format!("{writes} writes succeeded, expected {wf}"));
                }
            }
            if problems.is_empty() {
                acc.count("ok:write-failure", 1);
            } else {
                let name: Vec<String> = w.iter().map(|i| reqs[*i].label()).collect();
                acc.violation(viol(
                    format!("c06/WriteFile/script={}/{fin_label}/write-failure-at={wf}", name.join(",")),
                    format!("firmware upload of one 17-byte file, block size {block}\nrequests: {}, then {fin_label}\nthe connection breaks on the writing side: write number {wf} fails (0 = the file list, j = the data block answering request j, {} = the acknowledgement of the completion)\n{}\nevent log:\n{}", name.join(", "), w.len() + 1, problems.join("\n"), render_events(&events)),
                    w.len() as u64,
                ));
            }
        }
        }
    });
    let mut acc = acc;
    acc.merge(wacc);
    let _ = std::fs::remove_dir_all(&root);
    acc
}

// ---------------------------------------------------------------- C11

pub fn run_c11(run: &RunInfo) -> Summary {
    let table = shipped();
    let thorough = run.thorough();
    let silencer = silence_stdout();
    let root = scratch_root("c11");
    let blocks: Vec<u32> = vec![1, 2, 3, 8, 255, 256, 1024, 32768];
    // directory shapes: which recognised ids are present
    let reps: [u8; 6] = [0x10, 0x13, 0x14, 0x20, 0x23, 0x35];
    let mut shapes: Vec<Vec<u8>> = vec![vec![]];
    for (_, id) in RECOGNISED.iter() {
        shapes.push(vec![*id]);
    }
    for a in 0..6 {
        for b in a + 1..6 {
            shapes.push(vec![reps[a], reps[b]]);
            for c in b + 1..6 {
                shapes.push(vec![reps[a], reps[b], reps[c]]);
            }
        }
    }
    shapes.push(RECOGNISED.iter().map(|(_, i)| *i).collect());
    // (shape, block, unrelated) -> directory with sizes from the size list of that block
    struct Case {
        dir: DirSpec,
        block: u32,
    }
    let mut cases: Vec<Case> = vec![];
    let mut idx = 0;
    for (si, shape) in shapes.iter().enumerate() {
        for (bi, &b) in blocks.iter().enumerate() {
            // quick tier: every shape with two block sizes, rotating; thorough: all
            if !thorough && !(bi == si % blocks.len() || bi == (si + 3) % blocks.len()) {
                continue;
            }
            let bsz = b as usize;
            let mut sizes: Vec<usize> = vec![2 * bsz + 1, bsz, 0, 1, bsz.saturating_sub(1), bsz + 1, 2 * bsz];
            sizes.dedup();
            for unrelated in [false, true] {
                let files: Vec<(u8, usize)> = shape
                    .iter()
                    .enumerate()
                    .map(|(k, id)| {
                        let mut sz = sizes[(k + si) % sizes.len()];
                        if shape.len() == 21 && k == 4 {
                            sz = 200 * 1024;
                        }
                        (*id, sz)
                    })
                    .collect();
                cases.push(Case { dir: make_dir(&root, idx, &files, unrelated, run.seed), block: b });
                idx += 1;
            }
        }
    }
    let mut acc = par_for(cases.len(), |ci, acc| {
        let case = &cases[ci];
        let dir = &case.dir;
        let b = case.block;
        // request alphabet
        let mut ids: Vec<u8> = dir.files.iter().map(|(i, _)| *i).take(3).collect();
        let absent = RECOGNISED.iter().map(|(_, i)| *i).find(|i| !dir.files.iter().any(|(j, _)| j == i));
        if let Some(a) = absent {
            ids.push(a);
        }
        ids.push(0x77);
        let mut alpha: Vec<Req> = vec![Req::NoTlv, Req::NoFile, Req::Data { id: None, offset: Some(0) }, Req::Data { id: ids.first().copied(), offset: None }];
        for id in &ids {
            let size = dir.files.iter().find(|(i, _)| i == id).map(|(_, s)| *s).unwrap_or(5) as u64;
            let mut offs: Vec<u64> = vec![0, 1, (b as u64).saturating_sub(1), b as u64, size.saturating_sub(1), size, size + 1, u32::MAX as u64];
            if dir.files.len() > 3 {
                offs = vec![0, b as u64, size];
            }
            offs.sort();
            offs.dedup();
            for o in offs {
                alpha.push(Req::Data { id: Some(*id), offset: Some(o as u32) });
            }
        }
        let depth = if thorough && dir.files.len() <= 2 { 3 } else { 2 };
        let mut words: Vec<Vec<usize>> = vec![vec![]];
        let mut cur: Vec<Vec<usize>> = vec![vec![]];
        for d in 0..depth {
            let mut next = vec![];
            for w in &cur {
                // extending a word behind an invalid request is pointless: the upload has ended
                if let Some(l) = w.last() {
                    let valid = matches!(&alpha[*l], Req::Data { id: Some(i), offset: Some(_) } if dir.files.iter().any(|(j, _)| j == i));
                    if !valid {
                        continue;
                    }
                }
                for r in 0..alpha.len() {
                    if d == 2 && r % 3 != 0 {
                        continue;
                    }
                    let mut x = w.clone();
                    x.push(r);
                    next.push(x);
                }
            }
            words.extend(next.clone());
            cur = next;
        }
        for w in &words {
            for fin in [true, false] {
                let up = Upload { dir, seed: run.seed, block: b, password: if ci % 2 == 0 { 123456 } else { 7 }, requests: w.iter().map(|i| alpha[*i].clone()).collect(), finish: Some(fin), dropped: false };
                let (problems, events) = check_upload(&table, &up);
                acc.count("executions", 1);
                acc.count("transitions", (w.len() + 2) as u64);
                acc.set("outcomes", h64(&(ci, w, fin, problems.is_empty())));
                if problems.is_empty() {
                    if w.iter().any(|i| matches!(&alpha[*i], Req::Data { id: Some(id), offset: Some(_) } if dir.files.iter().any(|(j, _)| j == id))) {
                        acc.witness("valid requests were answered with the file's bytes");
                    }
                    if w.iter().any(|i| !matches!(&alpha[*i], Req::Data { id: Some(id), offset: Some(_) } if dir.files.iter().any(|(j, _)| j == id))) {
                        acc.witness("invalid requests ended the upload with an error");
                    }
                    if dir.files.len() == 21 {
                        acc.witness("all 21 recognised files announced");
                    }
                    if dir.files.is_empty() {
                        acc.witness("directory without recognised files rejected");
                    }
                } else {
                    let name: Vec<String> = up.requests.iter().map(|r| r.label()).collect();
                    acc.violation(viol(
                        format!("c11/files={:02x?}/block={b}/unrelated={}/script={}/{}", dir.files, dir.unrelated, name.join(","), if fin { "completion" } else { "abort" }),
                        format!("payload directory {:02x?} (unrelated files: {}), block size {b}\nrequests: {}\nended by {}\n{}\nevent log:\n{}", dir.files, dir.unrelated, name.join(", "), if fin { "completion" } else { "abort" }, problems.join("\n"), render_events(&events)),
                        (w.len() * 100 + dir.files.len()) as u64,
                    ));
                }
            }
        }
    });
    // ---- a terminal that pauses: after every byte count of the reply stream (inside headers, length
    //      bytes and bodies, and between packets) the terminal waits 4 s, 6 s or 61 s of virtual time
    //      before it sends the rest; the upload must be exactly the one of the unpaused terminal
    if !skip_for_replay(run, "c11/paused/") {
        let d = make_dir(&root, 9_000, &[(0x11, 10), (0x23, 5)], false, run.seed);
        let scripts: Vec<Vec<Req>> = vec![
            vec![Req::Data { id: Some(0x11), offset: Some(0) }, Req::Data { id: Some(0x23), offset: Some(0) }, Req::Data { id: Some(0x11), offset: Some(4) }],
            vec![Req::Data { id: Some(0x23), offset: Some(4) }],
        ];
        let codec = Codec::new(&table);
        let a = par_for(scripts.len() * 2, |ix, acc| {
            let (script, fin) = (&scripts[ix / 2], ix % 2 == 0);
            let total: usize = 3 + script.iter().map(|r| codec.encode(table.get("feig::RequestForData"), &r.value()).expect("reference request").len()).sum::<usize>() + if fin { 3 } else { 4 };
            for at in 0..total {
                for ms in [4_000u64, 6_000, 61_000] {
                    let up = Upload { dir: &d, seed: run.seed, block: 4, password: 123456, requests: script.clone(), finish: Some(fin), dropped: false };
                    let (problems, events) = check_upload_paused(&table, &up, Some((at, ms)));
                    acc.count("executions", 1);
                    acc.count("paused_executions", 1);
                    acc.count("transitions", (script.len() + 2) as u64);
                    if !problems.is_empty() {
                        let name: Vec<String> = script.iter().map(|r| r.label()).collect();
                        acc.violation(viol(
                            format!("c11/paused/script={}/{}/at={at}/ms={ms}", name.join(","), if fin { "completion" } else { "abort" }),
                            format!("payload directory {:02x?}, block size 4, requests: {}; the terminal pauses for {ms} ms after {at} bytes of its replies\n{}\nevent log:\n{}", d.files, name.join(", "), problems.join("\n"), render_events(&events)),
                            at as u64,
                        ));
                    }
                }
            }
            acc.witness("the terminal paused inside and between packets");
        });
        acc.merge(a);
    }
    // ---- whole-file uploads: the terminal fetches a file front to back (and two files alternately),
    //      which is what an update really does; includes files larger than any internal buffer
    {
        let sizes: Vec<usize> = if thorough { vec![0, 1, 999, 65535, 65536, 65537, 70_000, 131_073, 204_800] } else { vec![0, 1, 65537, 70_000, 204_800] };
        let blks: Vec<u32> = if thorough { vec![1000, 999, 255, 1024, 10_000, 30_000, 32_768] } else { vec![999, 1024, 10_000, 30_000, 32_768] };
        let mut seq_cases: Vec<(DirSpec, u32)> = vec![];
        let mut k = 10_000;
        for &sz in &sizes {
            let d = make_dir(&root, k, &[(0x11, sz), (0x23, sz / 2 + 3)], false, run.seed);
            k += 1;
            for &b in &blks {
                if sz / (b as usize) <= 400 {
                    seq_cases.push((d.clone(), b));
                }
            }
        }
        // every block size 1..=300 (every length the data container and its enclosing containers
        // can take up to beyond the 127/128 and 254/255/256 switches), on a file no block size divides
        {
            let d = make_dir(&root, k, &[(0x11, 613), (0x23, 307)], false, run.seed);
            for b in 1..=300u32 {
                seq_cases.push((d.clone(), b));
            }
        }
        let a = par_for(seq_cases.len(), |ci, acc| {
            let (dir, b) = &seq_cases[ci];
            let mk = |id: u8| -> Vec<Req> {
                let size = dir.files.iter().find(|(i, _)| *i == id).unwrap().1;
                let mut v = vec![];
                let mut off = 0usize;
                loop {
                    v.push(Req::Data { id: Some(id), offset: Some(off as u32) });
                    if off >= size {
                        break;
                    }
                    off += *b as usize;
                }
                v
            };
            let (a, c) = (mk(0x11), mk(0x23));
            let mut alt = vec![];
            for i in 0..a.len().max(c.len()) {
                if let Some(x) = a.get(i) {
                    alt.push(x.clone());
                }
                if let Some(x) = c.get(i) {
                    alt.push(x.clone());
                }
            }
            let mut both = a.clone();
            both.extend(c.clone());
            for (label, script) in [("file 0x11 front to back", a), ("0x11 then 0x23 front to back", both), ("0x11 and 0x23 alternately", alt)] {
                let up = Upload { dir, seed: run.seed, block: *b, password: 123456, requests: script.clone(), finish: Some(true), dropped: false };
                let (problems, events) = check_upload(&table, &up);
                acc.count("executions", 1);
                acc.count("transitions", (script.len() + 2) as u64);
                acc.count("w_sequential", 1);
                acc.set("outcomes", h64(&("seq", &dir.files, b, label, problems.is_empty())));
                if !problems.is_empty() {
                    let tail: Vec<String> = events.iter().rev().take(12).rev().map(|e| format!("  {}", match e { Ev::Write(w) => format!("Write({})", hex_short(w)), other => format!("{other:?}").chars().take(100).collect() })).collect();
                    acc.violation(viol(
                        format!("c11/sequential/files={:02x?}/block={b}/{label}", dir.files),
                        format!("whole-file upload ({label}), files {:02x?}, block size {b}, {} requests\n{}\nlast events:\n{}", dir.files, script.len(), problems.join("\n"), tail.join("\n")),
                        script.len() as u64,
                    ));
                }
            }
        });
        acc.merge(a);
    }
    let _ = std::fs::remove_dir_all(&root);
    drop(silencer);
    if acc.get("w_sequential") > 0 {
        acc.witness("whole files were uploaded front to back");
    }
    acc.count("directories", cases.len() as u64);
    acc.sample(json!({"files": "[(10, 17), (13, 7)]", "block": 8, "requests": "req(10,16), req(13,7)", "expected": "block = file[16..17], then an empty block (payload tag absent)"}));
    acc.sample(json!({"files": "[(20, 3)]", "block": 2, "requests": "req(77,0)", "expected": "one error, no data block"}));
    let execs = acc.get("executions");
    acc.count("evaluations", execs);
    Summary {
        states: acc.set_len("outcomes"),
        transitions: acc.get("transitions"),
        traces_validated: execs,
        distinct_nontrivial: acc.set_len("outcomes"),
        rule: format!("{} payload directories on disk (none, each of the 21 recognised paths alone, all pairs and triples over six representative paths, all 21 together incl. a 200 KiB file; each with and without unrelated files; file sizes 0,1,B-1,B,B+1,2B,2B+1) x block sizes {{1,2,3,8,255,256,1024,32768}} ({}) x all request scripts of length <= 2 (3 for small directories in thorough) over {{announced ids, a recognised-but-absent id, 0x77}} x offsets {{0,1,B-1,B,size-1,size,size+1,2^32-1}} + requests without id / offset / file container / TLV, ended by completion or abort; plus whole-file uploads (one file front to back, two files one after the other, two files alternately) for file sizes up to 200 KiB incl. 65535/65536/65537 and block sizes that do and do not divide 65536, and for every block size 1..=300 on a 613-byte file; plus two scripts x completion/abort against a terminal that pauses for 4 s, 6 s or 61 s of virtual time after every byte count of its replies (inside headers, length bytes, bodies and between packets). File content is a function of (id, offset, seed). distinct_nontrivial = distinct (directory, block, script, ending) cases", cases.len(), if thorough { "all combinations" } else { "two block sizes per shape, rotating" }),
        exhaustive: true,
        required_witnesses: vec![
            "valid requests were answered with the file's bytes".into(),
            "invalid requests ended the upload with an error".into(),
            "all 21 recognised files announced".into(),
            "directory without recognised files rejected".into(),
            "whole files were uploaded front to back".into(),
            "the terminal paused inside and between packets".into(),
        ],
        assumptions: vec!["the order of the announced file list is not specified (compared as a set)".into(), "file content depends on VERIF_SEED; the set of cases does not".into()],
        bounds: json!({"script_length": 2, "directories": cases.len()}),
        caps_hit: vec![],
        evaluations_counter: "evaluations".into(),
        acc,
    }
}
