//! C16 - every length-prefix style is an exact, shortest-form bijection on its range.
use crate::util::*;
use serde_json::json;
use std::collections::HashSet;
use vcore::codec::{apdu_len, ber_len, llvar};
use vcore::report::*;
use zvt_builder::length::{Adpu, Fixed, Length, Llv, Lllv, Tlv};
use zvt_builder::ZVTError;

type Ser = fn(usize) -> Vec<u8>;
type De = fn(&[u8]) -> Result<(usize, usize), ZVTError>; // (length, remainder length)

fn de<L: Length>(b: &[u8]) -> Result<(usize, usize), ZVTError> {
    L::deserialize(b).map(|(n, r)| (n, r.len()))
}

struct Style {
    name: &'static str,
    ser: Ser,
    de: De,
    max: usize,
    reference: fn(usize) -> Vec<u8>,
}

fn styles() -> Vec<Style> {
    vec![
        Style { name: "tlv", ser: Tlv::serialize, de: de::<Tlv>, max: 65535, reference: |n| ber_len(n).unwrap() },
        Style { name: "apdu", ser: Adpu::serialize, de: de::<Adpu>, max: 65535, reference: |n| apdu_len(n).unwrap() },
        Style { name: "llv", ser: Llv::serialize, de: de::<Llv>, max: 99, reference: |n| llvar(n, 2).unwrap() },
        Style { name: "lllv", ser: Lllv::serialize, de: de::<Lllv>, max: 999, reference: |n| llvar(n, 3).unwrap() },
    ]
}

const TRAILERS: [&[u8]; 4] = [&[], &[0x00], &[0xff], &[0x82, 0x81]];

/// lengths of trailing data tried behind every prefix (besides the short trailers): around every
/// multiple of 256 up to 1 KiB, so that buffer sizes hit every residue class a narrowed
/// comparison could single out
fn long_trailers() -> Vec<usize> {
    let mut v: Vec<usize> = vec![3, 4, 5, 126, 127, 128, 129];
    for k in [256usize, 512, 768, 1024] {
        v.extend(k - 4..=k + 3);
    }
    v
}

fn check_style(st: &Style, lens: &[usize], thorough: bool, acc: &mut Acc) {
    let mut prefixes: HashSet<Vec<u8>> = HashSet::new();
    let mut big: Vec<u8> = (0..70_000usize).map(|i| (i * 7 + 3) as u8).collect();
    let longs = long_trailers();
    for &n in lens {
        acc.count("cases", 1);
        let key = format!("c16/{}/n={n}", st.name);
        let want = (st.reference)(n);
        acc.count("calls", 1);
        let got = match guarded(|| (st.ser)(n)) {
            Ok(g) => g,
            Err(p) => {
                acc.violation(viol(key.clone(), format!("{}::serialize({n}) panicked: {p}", st.name), n as u64));
                continue;
            }
        };
        if got != want {
            acc.violation(viol(
                key.clone(),
                format!("{}::serialize({n}) = {} but the format's shortest prefix is {}", st.name, hex(&got), hex(&want)),
                n as u64,
            ));
        }
        prefixes.insert(got.clone());
        acc.set("prefixes", h64(&(st.name, &got)));
        for tr in TRAILERS {
            let mut input = got.clone();
            input.extend_from_slice(tr);
            acc.count("calls", 1);
            match guarded(|| (st.de)(&input)) {
                Ok(Ok((len, rest))) => {
                    if len != n || rest != tr.len() {
                        acc.violation(viol(
                            format!("{key}/trail={}", hex(tr)),
                            format!(
                                "{}::deserialize({}) = (len {len}, remainder of {rest} bytes), expected (len {n}, remainder {} = {})",
                                st.name,
                                hex(&input),
                                tr.len(),
                                hex(tr)
                            ),
                            n as u64,
                        ));
                    }
                }
                Ok(Err(e)) => acc.violation(viol(
                    format!("{key}/trail={}", hex(tr)),
                    format!("{}::deserialize({}) = Err({e:?}), expected (len {n}, remainder {})", st.name, hex(&input), hex(tr)),
                    n as u64,
                )),
                Err(p) => acc.violation(viol(
                    format!("{key}/trail={}", hex(tr)),
                    format!("{}::deserialize({}) panicked: {p}", st.name, hex(&input)),
                    n as u64,
                )),
            }
        }
        // long trailing data: the prefix followed by t bytes, and by exactly n bytes (its own payload)
        {
            let pl = got.len();
            big[..pl].copy_from_slice(&got);
            let mut ts: Vec<usize> = longs.clone();
            if thorough || n <= 2100 || n % 97 == 0 {
                ts.push(n);
            }
            for t in ts {
                acc.count("calls", 1);
                acc.count("long_trailer_cases", 1);
                let input = &big[..pl + t];
                match guarded(|| (st.de)(input)) {
                    Ok(Ok((len, rest))) if len == n && rest == t => {}
                    other => acc.violation(viol(
                        format!("{key}/trailing={t}"),
                        format!("{}::deserialize(prefix {} followed by {t} bytes of data) = {other:?}, expected (len {n}, remainder of {t} bytes)", st.name, hex(&got)),
                        n as u64,
                    )),
                }
            }
            // restore the pattern under the prefix
            for (i, b) in big[..pl].iter_mut().enumerate() {
                *b = (i * 7 + 3) as u8;
            }
        }
        // every strict prefix of the emitted prefix (incl. empty input) is an error
        for cut in 0..want.len() {
            let input = &want[..cut];
            acc.count("calls", 1);
            match guarded(|| (st.de)(input)) {
                Ok(Err(_)) => {}
                Ok(Ok(r)) => acc.violation(viol(
                    format!("{key}/cut={cut}"),
                    format!("{}::deserialize(truncated prefix {}) = Ok({r:?}), expected an error", st.name, hex(input)),
                    n as u64,
                )),
                Err(p) => acc.violation(viol(
                    format!("{key}/cut={cut}"),
                    format!("{}::deserialize(truncated prefix {}) panicked: {p}", st.name, hex(input)),
                    n as u64,
                )),
            }
        }
    }
    if prefixes.len() != lens.len() {
        acc.violation(viol(
            format!("c16/{}/injective", st.name),
            format!("{}: {} lengths produced only {} distinct prefixes", st.name, lens.len(), prefixes.len()),
            0,
        ));
    }
}

/// what the format defines for a byte string fed to a parser: Some((len, prefix size)) if the
/// string starts with a defined shortest-form prefix, None if the format does not define it
fn defined(style: &str, b: &[u8]) -> Option<(usize, usize)> {
    match style {
        "tlv" => match b.first()? {
            x @ 0..=0x7f => Some((*x as usize, 1)),
            0x81 => b.get(1).filter(|x| **x >= 0x80).map(|x| (*x as usize, 2)),
            0x82 => {
                if b.len() >= 3 && b[1] != 0 {
                    Some((((b[1] as usize) << 8) | b[2] as usize, 3))
                } else {
                    None
                }
            }
            _ => None,
        },
        "apdu" => match b.first()? {
            0xff => {
                if b.len() >= 3 {
                    let v = (b[1] as usize) | ((b[2] as usize) << 8);
                    if v >= 255 {
                        Some((v, 3))
                    } else {
                        None
                    }
                } else {
                    None
                }
            }
            x => Some((*x as usize, 1)),
        },
        "llv" | "lllv" => {
            let d = if style == "llv" { 2 } else { 3 };
            if b.len() >= d && b[..d].iter().all(|x| (0xf0..=0xf9).contains(x)) {
                Some((b[..d].iter().fold(0usize, |a, x| a * 10 + (x & 0xf) as usize), d))
            } else {
                None
            }
        }
        _ => None,
    }
}

/// a truncated prefix: the string is a strict prefix of some defined prefix and defines nothing
fn must_fail(style: &str, b: &[u8]) -> bool {
    match style {
        "tlv" => b.is_empty() || (b[0] == 0x81 && b.len() < 2) || (b[0] == 0x82 && b.len() < 3),
        "apdu" => b.is_empty() || (b[0] == 0xff && b.len() < 3),
        "llv" => b.len() < 2,
        "lllv" => b.len() < 3,
        _ => false,
    }
}

fn check_strings(st: &Style, first: u8, thorough: bool, acc: &mut Acc) {
    // all strings of length 1..=3 starting with `first` (length 0 handled with first == 0)
    let full3 = thorough || [0x7f, 0x80, 0x81, 0x82, 0x83, 0xfe, 0xff].contains(&first) || (0xf0..=0xf9).contains(&first);
    let mut check = |b: &[u8], acc: &mut Acc| {
        acc.count("strings", 1);
        acc.count("calls", 1);
        let key = format!("c16/{}/parse={}", st.name, hex(b));
        match guarded(|| (st.de)(b)) {
            Err(p) => acc.violation(viol(key, format!("{}::deserialize({}) panicked: {p}", st.name, hex(b)), 1000)),
            Ok(res) => {
                if let Some((len, used)) = defined(st.name, b) {
                    match res {
                        Ok((l, rest)) if l == len && rest == b.len() - used => {
                            acc.count("defined_agree", 1);
                        }
                        other => acc.violation(viol(
                            key,
                            format!(
                                "{}::deserialize({}) = {other:?}, the format defines (len {len}, remainder of {} bytes)",
                                st.name,
                                hex(b),
                                b.len() - used
                            ),
                            1000,
                        )),
                    }
                } else if must_fail(st.name, b) {
                    if let Ok(r) = res {
                        acc.violation(viol(key, format!("{}::deserialize(truncated {}) = Ok({r:?}), expected an error", st.name, hex(b)), 1000));
                    } else {
                        acc.count("truncated_rejected", 1);
                    }
                } else if st.name == "tlv" && (b[0] == 0x80 || b[0] >= 0x83) {
                    // lead bytes that announce no length of this style (indefinite form, length of
                    // three and more bytes): not a prefix, must be refused
                    if let Ok(r) = res {
                        acc.violation(viol(key, format!("{}::deserialize({}) = Ok({r:?}): the lead byte {:02x} announces no length of this style, expected an error", st.name, hex(b), b[0]), 1000));
                    } else {
                        acc.count("unsupported_lead_rejected", 1);
                    }
                } else if let Ok((_, rest)) = res {
                    // outside the defined prefixes only memory safety is demanded: the remainder
                    // must lie inside the input
                    if rest > b.len() {
                        acc.violation(viol(key, format!("{}::deserialize({}) returned a remainder longer than the input", st.name, hex(b)), 1000));
                    }
                }
            }
        }
    };
    if first == 0 {
        check(&[], acc);
    }
    check(&[first], acc);
    for b1 in 0..=255u8 {
        check(&[first, b1], acc);
        if full3 {
            for b2 in 0..=255u8 {
                check(&[first, b1, b2], acc);
            }
        }
    }
}

fn check_fixed<const N: usize>(acc: &mut Acc) {
    for len in 0..=N {
        acc.count("cases", 1);
        acc.count("calls", 1);
        let key = format!("c16/fixed{N}/len={len}");
        match guarded(|| <Fixed<N> as Length>::serialize(len)) {
            Ok(p) => {
                if p != vec![0u8; N - len] {
                    acc.violation(viol(key.clone(), format!("Fixed<{N}>::serialize({len}) = {} expected {} zero bytes of left padding", hex(&p), N - len), 0));
                }
            }
            Err(p) => acc.violation(viol(key.clone(), format!("Fixed<{N}>::serialize({len}) panicked: {p}"), 0)),
        }
    }
    for m in 0..=N + 4 {
        let data: Vec<u8> = (0..m).map(|i| (i * 17 + 0x81) as u8).collect();
        acc.count("cases", 1);
        acc.count("calls", 1);
        let key = format!("c16/fixed{N}/input={m}");
        let res = guarded(|| de::<Fixed<N>>(&data));
        match res {
            Ok(Ok((l, rest))) => {
                if m < N || l != N || rest != m {
                    acc.violation(viol(key, format!("Fixed<{N}>::deserialize({m} bytes) = Ok(({l}, rest {rest})), expected {}", if m < N { "an error".into() } else { format!("({N}, all {m} bytes)") }), 0));
                }
            }
            Ok(Err(_)) => {
                if m >= N {
                    acc.violation(viol(key, format!("Fixed<{N}>::deserialize({m} bytes) is an error, expected ({N}, data)"), 0));
                }
            }
            Err(p) => acc.violation(viol(key, format!("Fixed<{N}>::deserialize({m} bytes) panicked: {p}"), 0)),
        }
    }
}

/// Call-order independence: a length style is a function of its argument alone, so no call may
/// depend on the calls made before it (a memo, a reused buffer, a thread-local scratch value).
/// Every ordered pair (thorough: triple) of calls over an alphabet of (style, serialize n) and
/// (style, deserialize prefix(n) + trailer) runs back to back on one thread, and every style pair
/// is run back to back on every common length; each result is compared with the reference.
fn check_call_order(thorough: bool, acc: &mut Acc) {
    let sts = styles();
    let alpha: [usize; 14] = [0, 1, 4, 9, 10, 11, 99, 100, 127, 128, 255, 256, 999, 65535];
    // (style index, is_de, n)
    let mut ops: Vec<(usize, bool, usize)> = vec![];
    for (si, st) in sts.iter().enumerate() {
        for &n in alpha.iter().filter(|n| **n <= st.max) {
            ops.push((si, false, n));
            ops.push((si, true, n));
        }
    }
    let run_op = |o: &(usize, bool, usize), ctx: &str, acc: &mut Acc| {
        let st = &sts[o.0];
        acc.count("calls", 1);
        let want = (st.reference)(o.2);
        if !o.1 {
            match guarded(|| (st.ser)(o.2)) {
                Ok(g) if g == want => {}
                Ok(g) => acc.violation(viol(format!("c16/order/{ctx}"), format!("after the calls [{ctx}]: {}::serialize({}) = {} but the format's shortest prefix is {} (the result depends on earlier calls)", st.name, o.2, hex(&g), hex(&want)), 0)),
                Err(p) => acc.violation(viol(format!("c16/order/{ctx}"), format!("after the calls [{ctx}]: {}::serialize({}) panicked: {p}", st.name, o.2), 0)),
            }
        } else {
            let mut input = want.clone();
            input.extend([0x5a, 0x82]);
            match guarded(|| (st.de)(&input)) {
                Ok(Ok((n, rest))) if n == o.2 && rest == 2 => {}
                other => acc.violation(viol(format!("c16/order/{ctx}"), format!("after the calls [{ctx}]: {}::deserialize({}) = {:?}, expected ({}, 2 bytes left)", st.name, hex(&input), other.map(|r| r.map_err(|e| format!("{e:?}"))), o.2), 0)),
            }
        }
    };
    let label = |o: &(usize, bool, usize)| format!("{}::{}({})", sts[o.0].name, if o.1 { "de" } else { "ser" }, o.2);
    for a in &ops {
        for b in &ops {
            acc.count("cases", 1);
            acc.count("order_cases", 1);
            let ctx = format!("{} {}", label(a), label(b));
            run_op(a, &label(a), acc);
            run_op(b, &ctx, acc);
            if thorough {
                for c in &ops {
                    acc.count("cases", 1);
                    acc.count("order_cases", 1);
                    run_op(a, &label(a), acc);
                    run_op(b, &ctx, acc);
                    run_op(c, &format!("{ctx} {}", label(c)), acc);
                }
            }
        }
    }
    // every pair of styles back to back on every common length, in both directions of the codec
    for n in 0..=999usize {
        for (ai, a) in sts.iter().enumerate() {
            for (bi, b) in sts.iter().enumerate() {
                if ai == bi || n > a.max || n > b.max {
                    continue;
                }
                for (da, db) in [(false, false), (false, true), (true, false), (true, true)] {
                    acc.count("cases", 1);
                    acc.count("order_cases", 1);
                    let (oa, ob) = ((ai, da, n), (bi, db, n));
                    run_op(&oa, &label(&oa), acc);
                    run_op(&ob, &format!("{} {}", label(&oa), label(&ob)), acc);
                }
            }
        }
    }
}

pub fn run(run: &RunInfo) -> Summary {
    let thorough = run.thorough();
    let sts = styles();
    // work items: (style, chunk of lengths) and (style, first byte)
    let mut items: Vec<(usize, usize, usize)> = vec![]; // kind, style, arg
    for (si, st) in sts.iter().enumerate() {
        let chunks = (st.max + 1 + 4095) / 4096;
        for c in 0..chunks {
            items.push((0, si, c));
        }
        for first in 0..=255usize {
            items.push((1, si, first));
        }
    }
    items.push((2, 0, 0));
    items.push((3, 0, 0));
    let acc = par_for(items.len(), |i, acc| {
        let (kind, si, arg) = items[i];
        match kind {
            0 => {
                let st = &sts[si];
                let lo = arg * 4096;
                let hi = ((arg + 1) * 4096).min(st.max + 1);
                let lens: Vec<usize> = (lo..hi).collect();
                check_style(st, &lens, thorough, acc);
            }
            1 => check_strings(&sts[si], arg as u8, thorough, acc),
            3 => check_call_order(thorough, acc),
            _ => {
                check_fixed::<1>(acc);
                check_fixed::<2>(acc);
                check_fixed::<3>(acc);
                check_fixed::<4>(acc);
                check_fixed::<5>(acc);
                check_fixed::<6>(acc);
                check_fixed::<7>(acc);
                check_fixed::<8>(acc);
                check_fixed::<9>(acc);
                check_fixed::<10>(acc);
                check_fixed::<11>(acc);
                check_fixed::<12>(acc);
                check_fixed::<13>(acc);
                check_fixed::<14>(acc);
                check_fixed::<15>(acc);
                check_fixed::<16>(acc);
                check_fixed::<17>(acc);
            }
        }
    });
    let mut acc = acc;
    // injectivity across chunks: number of distinct (style, prefix) pairs must equal the number of lengths
    let total_lens: u64 = sts.iter().map(|s| s.max as u64 + 1).sum();
    if acc.set_len("prefixes") != total_lens {
        acc.violation(viol(
            "c16/injective".into(),
            format!("{} representable lengths produced {} distinct (style, prefix) pairs", total_lens, acc.set_len("prefixes")),
            0,
        ));
    }
    acc.sample(json!({"style": "tlv", "length": 128, "prefix": hex(&Tlv::serialize(128)), "trailers": ["", "00", "ff", "8281"]}));
    acc.sample(json!({"style": "apdu", "length": 255, "prefix": hex(&Adpu::serialize(255))}));
    acc.sample(json!({"parser": "tlv", "input": "8201", "expected": "error (truncated prefix)"}));
    if acc.get("defined_agree") > 0 {
        acc.witness("parser agreed with the format on defined prefixes");
    }
    if acc.get("truncated_rejected") > 0 {
        acc.witness("truncated prefixes rejected");
    }
    let cases = acc.get("cases") + acc.get("strings");
    let calls = acc.get("calls");
    acc.count("evaluations", cases);
    Summary {
        states: cases,
        transitions: calls,
        traces_validated: cases,
        distinct_nontrivial: acc.set_len("prefixes") + acc.get("defined_agree"),
        rule: "every representable length of Tlv/Adpu (0..=65535), Llv (0..=99), Lllv (0..=999) and every (N, len<=N) of Fixed<1..=17>, each with 4 short trailers, 39 trailing-data lengths around 128 and every multiple of 256 up to 1 KiB, its own payload length (quick: for n <= 2100 and every 97th n), and every truncation of its prefix; call-order independence: every ordered pair (thorough: triple) of calls over {serialize n, deserialize prefix(n)+2 bytes} x 4 styles x 14 lengths, and every ordered pair of styles back to back on every common length 0..=999 in all four serialize/deserialize combinations, each result compared with the reference; every byte string of length 0..2 (thorough: ..3; quick: length 3 for the first bytes 7f,80..83,f0..f9,fe,ff) through every parser. distinct_nontrivial = distinct (style, emitted prefix) pairs + parser inputs on which the format defines the result".into(),
        exhaustive: true,
        required_witnesses: vec!["parser agreed with the format on defined prefixes".into(), "truncated prefixes rejected".into()],
        assumptions: vec![
            "non-shortest BER/APDU forms and LLVAR bytes outside F0..F9 are outside the format: only absence of panics is demanded there".into(),
            "reference prefixes come from vcore::codec (independent of zvt_builder)".into(),
        ],
        bounds: json!({"tlv": "0..=65535", "apdu": "0..=65535", "llv": "0..=99", "lllv": "0..=999", "fixed": "N in 1..=17", "parser_strings": if thorough {"all of length <=3"} else {"all of length <=2, length 3 for 17 first bytes"}}),
        caps_hit: vec![],
        evaluations_counter: "evaluations".into(),
        acc,
    }
}
