//! C17 - scalar, text and tag encodings round-trip over their whole domain.
use crate::util::*;
use serde_json::json;
use vcore::codec::{bcd_min, bcd_parse, cp437_char, cp437_decode, tag_bytes};
use vcore::report::*;
use zvt::packets::PartialReversalReceiptNo;
use zvt_builder::encoding::{Bcd, BigEndian, Default as Dflt, Encoding, Hex};
use zvt_builder::length::Fixed;
use zvt_builder::{Tag, ZVTError, ZvtSerializerImpl};

fn int_values(bits: u32, all_small: bool) -> Vec<u64> {
    let max: u64 = if bits >= 64 { u64::MAX } else { (1u64 << bits) - 1 };
    if all_small && bits <= 16 {
        return (0..=max).collect();
    }
    let mut v: Vec<u64> = vec![0];
    let mut p: u128 = 1;
    for _ in 0..=20 {
        for d in [-1i128, 0, 1] {
            let x = p as i128 + d;
            if x >= 0 && x as u128 <= max as u128 {
                v.push(x as u64);
            }
        }
        p *= 10;
    }
    for k in 0..=64u32 {
        let x: u128 = 1u128 << k;
        for y in [x - 1, x] {
            if y <= max as u128 {
                v.push(y as u64);
            }
        }
    }
    // nine mixed patterns per digit count
    let pats = ["123456789012345678901", "987654321098765432109", "102030405060708090102", "909090909090909090909", "111111111111111111111", "500000000000000000005", "192837465019283746501", "314159265358979323846", "271828182845904523536"];
    for digits in 1..=20usize {
        for pat in pats {
            if let Ok(x) = pat[..digits].parse::<u128>() {
                if x <= max as u128 {
                    v.push(x as u64);
                }
            }
        }
    }
    // every value with exactly two non-zero decimal digits from {1, 9} (interior zero bytes)
    for i in 0..20u32 {
        for j in 0..i {
            for a in [1u128, 9] {
                for b in [1u128, 9] {
                    let x = a * 10u128.pow(i) + b * 10u128.pow(j);
                    if x <= max as u128 {
                        v.push(x as u64);
                    }
                }
            }
        }
    }
    // the neighbourhood of the maximum
    for d in 0..=300u64 {
        v.push(max - d);
    }
    v.sort();
    v.dedup();
    v
}

macro_rules! int_checks {
    ($fname:ident, $ty:ty, $bits:expr) => {
        fn $fname(acc: &mut Acc) {
            let vals = int_values($bits, true);
            let size = std::mem::size_of::<$ty>();
            for &x in &vals {
                let v = x as $ty;
                acc.count("cases", 1);
                acc.set("int_values", h64(&(stringify!($ty), x)));
                let key = format!("c17/{}/x={x}", stringify!($ty));
                // little endian
                acc.count("calls", 6);
                let r = guarded(|| {
                    let le = <Dflt as Encoding<$ty>>::encode(&v);
                    let be = <BigEndian as Encoding<$ty>>::encode(&v);
                    let bcd = <Bcd as Encoding<$ty>>::encode(&v);
                    let dle = <Dflt as Encoding<$ty>>::decode(&le).map(|(a, r)| (a, r.len()));
                    let dbe = <BigEndian as Encoding<$ty>>::decode(&be).map(|(a, r)| (a, r.len()));
                    let dbcd = <Bcd as Encoding<$ty>>::decode(&bcd).map(|(a, r)| (a, r.len()));
                    (le, be, bcd, dle, dbe, dbcd)
                });
                match r {
                    Err(p) => acc.violation(viol(key, format!("encode/decode of {x} as {} panicked: {p}", stringify!($ty)), x.min(1 << 40))),
                    Ok((le, be, bcd, dle, dbe, dbcd)) => {
                        let want_le = x.to_le_bytes()[..size].to_vec();
                        let want_be = x.to_be_bytes()[8 - size..].to_vec();
                        let want_bcd = bcd_min(x);
                        if le != want_le || be != want_be || bcd != want_bcd {
                            acc.violation(viol(
                                key.clone(),
                                format!(
                                    "{x} as {}: LE {} (want {}), BE {} (want {}), BCD {} (want {})",
                                    stringify!($ty),
                                    hex(&le),
                                    hex(&want_le),
                                    hex(&be),
                                    hex(&want_be),
                                    hex(&bcd),
                                    hex(&want_bcd)
                                ),
                                x.min(1 << 40),
                            ));
                        }
                        if dle != Ok((v, 0)) || dbe != Ok((v, 0)) || dbcd != Ok((v, 0)) {
                            acc.violation(viol(
                                key,
                                format!("{x} as {} does not round-trip: LE {dle:?}, BE {dbe:?}, BCD {dbcd:?}", stringify!($ty)),
                                x.min(1 << 40),
                            ));
                        }
                    }
                }
            }
        }
    };
}

int_checks!(ints_u8, u8, 8);
int_checks!(ints_u16, u16, 16);
int_checks!(ints_u32, u32, 32);
int_checks!(ints_u64, u64, 64);
int_checks!(ints_usize, usize, 64);

fn bcd_decode_as(bits: u32, b: &[u8]) -> Result<Result<(u64, usize), ZVTError>, String> {
    guarded(|| match bits {
        8 => <Bcd as Encoding<u8>>::decode(b).map(|(a, r)| (a as u64, r.len())),
        16 => <Bcd as Encoding<u16>>::decode(b).map(|(a, r)| (a as u64, r.len())),
        32 => <Bcd as Encoding<u32>>::decode(b).map(|(a, r)| (a as u64, r.len())),
        64 => <Bcd as Encoding<u64>>::decode(b).map(|(a, r)| (a, r.len())),
        _ => <Bcd as Encoding<usize>>::decode(b).map(|(a, r)| (a as u64, r.len())),
    })
}

fn check_bcd_string(b: &[u8], acc: &mut Acc) {
    for (bits, name) in [(8u32, "u8"), (16, "u16"), (32, "u32"), (64, "u64"), (65, "usize")] {
        acc.count("cases", 1);
        acc.count("calls", 1);
        let key = format!("c17/bcd-decode/{name}/{}", hex(b));
        let want = bcd_parse(b, bits.min(64));
        match bcd_decode_as(bits, b) {
            Err(p) => acc.violation(viol(key, format!("Bcd::decode::<{name}>({}) panicked: {p}", hex(b)), b.len() as u64)),
            Ok(got) => match (&want, &got) {
                (Ok(w), Ok((g, 0))) if w == g => acc.count("bcd_ok", 1),
                (Err(_), Err(_)) => acc.count("bcd_rejected", 1),
                _ => acc.violation(viol(
                    key,
                    format!("Bcd::decode::<{name}>({}) = {got:?}, the format gives {want:?} (digits that do not fit must be an error)", hex(b)),
                    b.len() as u64,
                )),
            },
        }
    }
}

fn digits_to_bcd_forms(digits: &str) -> Vec<Vec<u8>> {
    // even form (left padded with a zero digit) and, for odd digit counts, the F-padded form
    let d: Vec<u8> = digits.bytes().map(|c| c - b'0').collect();
    let mut forms = vec![];
    let mut even = d.clone();
    if even.len() % 2 == 1 {
        even.insert(0, 0);
    }
    forms.push(even.chunks(2).map(|c| (c[0] << 4) | c[1]).collect::<Vec<u8>>());
    if d.len() % 2 == 1 {
        let mut f = d.clone();
        f.push(0xf);
        forms.push(f.chunks(2).map(|c| (c[0] << 4) | c[1]).collect());
    }
    // with two leading zero bytes
    let mut lead = vec![0u8, 0];
    lead.extend(forms[0].clone());
    forms.push(lead);
    forms
}

fn bcd_strings(acc: &mut Acc) {
    // every string of length 0..=5 over nibbles {0,1,9}, optionally ending in an F nibble
    let nib = [0u8, 1, 9];
    for len in 0..=5usize {
        let n = 9usize.pow(len as u32);
        for i in 0..n {
            let mut k = i;
            let mut b = vec![];
            for _ in 0..len {
                let x = k % 9;
                k /= 9;
                b.push((nib[x / 3] << 4) | nib[x % 3]);
            }
            check_bcd_string(&b, acc);
            if len > 0 {
                let mut f = b.clone();
                let last = f.len() - 1;
                f[last] |= 0x0f;
                check_bcd_string(&f, acc);
            }
        }
    }
    // the neighbourhood of every integer type's maximum, in every spelling
    for bits in [8u32, 16, 32, 64] {
        let max: u128 = if bits == 64 { u64::MAX as u128 } else { (1u128 << bits) - 1 };
        let lo = max.saturating_sub(150);
        for v in lo..=max + 1200 {
            for f in digits_to_bcd_forms(&v.to_string()) {
                check_bcd_string(&f, acc);
            }
        }
        for extra in [max * 10, max * 10 + 9, max * 100, max + 100_000] {
            for f in digits_to_bcd_forms(&extra.to_string()) {
                check_bcd_string(&f, acc);
            }
        }
    }
    for n in 1..=11usize {
        check_bcd_string(&vec![0x99; n], acc);
        check_bcd_string(&vec![0x00; n], acc);
        let mut one = vec![0x00; n];
        one[n - 1] = 0x01;
        check_bcd_string(&one, acc);
    }
}

fn tags(acc: &mut Acc) {
    for t in 0..=0xffffu32 {
        let t = t as u16;
        acc.count("cases", 1);
        acc.count("calls", 4);
        let key = format!("c17/tag/{t:04x}");
        let r = guarded(|| {
            let be = <BigEndian as Encoding<Tag>>::encode(&Tag(t));
            let dbe = <BigEndian as Encoding<Tag>>::decode(&be).map(|(a, r)| (a.0, r.len()));
            let df = <Dflt as Encoding<Tag>>::encode(&Tag(t));
            let mut with_tail = df.clone();
            with_tail.extend([0x55, 0x1f]);
            let ddf = <Dflt as Encoding<Tag>>::decode(&with_tail).map(|(a, r)| (a.0, r.len()));
            (be, dbe, df, ddf)
        });
        match r {
            Err(p) => acc.violation(viol(key, format!("Tag {t:#06x} encode/decode panicked: {p}"), t as u64)),
            Ok((be, dbe, df, ddf)) => {
                if be != t.to_be_bytes().to_vec() || dbe != Ok((t, 0)) {
                    acc.violation(viol(key.clone(), format!("Tag {t:#06x} big endian: bytes {}, back {dbe:?}", hex(&be)), t as u64));
                }
                let hi = (t >> 8) as u8;
                let representable = (t < 0x100 && t != 0x1f && t != 0xff) || hi == 0x1f || hi == 0xff;
                if representable {
                    acc.count("tags_representable", 1);
                    if df != tag_bytes(t) || ddf != Ok((t, 2)) {
                        acc.violation(viol(
                            key,
                            format!("Tag {t:#06x} default: bytes {} (want {}), decode(bytes ++ 55 1f) = {ddf:?} (want the tag and the 2 trailing bytes)", hex(&df), hex(&tag_bytes(t))),
                            t as u64,
                        ));
                    }
                }
            }
        }
    }
    // truncated two-byte tags and empty input are errors
    for b in [vec![], vec![0x1f], vec![0xff]] {
        acc.count("cases", 1);
        acc.count("calls", 1);
        let r = guarded(|| <Dflt as Encoding<Tag>>::decode(&b).map(|(a, r)| (a.0, r.len())));
        if !matches!(r, Ok(Err(_))) {
            acc.violation(viol(format!("c17/tag-trunc/{}", hex(&b)), format!("Tag decode of truncated input {} = {r:?}, expected an error", hex(&b)), 0));
        }
    }
}

fn cp437_case(bytes: &[u8], acc: &mut Acc) {
    acc.count("cases", 1);
    acc.count("calls", 2);
    let key = format!("c17/cp437/{}", hex_short(bytes));
    let want_full = cp437_decode(bytes);
    let want = want_full.trim_end_matches('\0').to_string();
    let r = guarded(|| {
        let s = <Dflt as Encoding<String>>::decode(bytes).map(|(s, r)| (s, r.len()));
        let back = s.as_ref().ok().map(|(s, _)| <Dflt as Encoding<String>>::encode(s));
        (s, back)
    });
    match r {
        Err(p) => acc.violation(viol(key, format!("CP437 decode/encode of {} panicked: {p}", hex_short(bytes)), bytes.len() as u64)),
        Ok((s, back)) => {
            let trimmed: Vec<u8> = {
                let mut b = bytes.to_vec();
                while b.last() == Some(&0) {
                    b.pop();
                }
                b
            };
            if s != Ok((want.clone(), 0)) || back != Some(trimmed.clone()) {
                acc.violation(viol(
                    key,
                    format!("CP437 {}: decoded {s:?} (want {want:?}), re-encoded {:?} (want {})", hex_short(bytes), back.map(|b| hex(&b)), hex(&trimmed)),
                    bytes.len() as u64,
                ));
            } else {
                acc.set("cp437_chars", h64(&want));
            }
        }
    }
}

fn cp437(acc: &mut Acc) {
    for len in 1..=3usize {
        for pos in 0..len {
            for b in 0..=255u8 {
                let mut s = vec![b'A'; len];
                s[pos] = b;
                cp437_case(&s, acc);
            }
        }
    }
    let all: Vec<u8> = (1..=255u8).collect();
    cp437_case(&all, acc);
    cp437_case(&[], acc);
    // every pair of high-half bytes next to each other
    for a in (0x80..=0xffu8).step_by(1) {
        cp437_case(&[a, a.wrapping_add(0x3b) | 0x80], acc);
    }
    let _ = cp437_char(0);
}

/// all three-byte strings over the upper half of the code page (quick) / over all bytes (thorough)
fn cp437_triples(lo: u8, acc: &mut Acc) {
    for a in lo..=255u8 {
        for b in lo..=255u8 {
            for c in lo..=255u8 {
                if c == 0 {
                    continue;
                }
                let bytes = [a, b, c];
                acc.count("cases", 1);
                acc.count("calls", 2);
                let want: String = bytes.iter().map(|x| cp437_char(*x)).collect();
                let r = guarded(|| {
                    let s = <Dflt as Encoding<String>>::decode(&bytes).map(|(s, r)| (s, r.len()));
                    let back = s.as_ref().ok().map(|(s, _)| <Dflt as Encoding<String>>::encode(s));
                    (s, back)
                });
                match r {
                    Ok((Ok((s, 0)), Some(back))) if s == want && back == bytes => {}
                    other => acc.violation(viol(
                        format!("c17/cp437/{}", hex(&bytes)),
                        format!("CP437 {}: expected text {want:?} and the same bytes back, got {other:?}", hex(&bytes)),
                        3,
                    )),
                }
            }
        }
    }
}

fn cp437_triples_high(acc: &mut Acc) {
    cp437_triples(0x80, acc)
}

fn cp437_triples_all(acc: &mut Acc) {
    cp437_triples(0x00, acc)
}

fn hex_case(bytes: &[u8], acc: &mut Acc) {
    acc.count("cases", 1);
    acc.count("calls", 2);
    let s: String = bytes.iter().map(|b| format!("{:02x}", b)).collect();
    let r = guarded(|| {
        let enc = <Hex as Encoding<String>>::encode(&s);
        let dec = <Hex as Encoding<String>>::decode(bytes).map(|(s, r)| (s, r.len()));
        (enc, dec)
    });
    let key = format!("c17/hex/{}", hex_short(bytes));
    match r {
        Err(p) => acc.violation(viol(key, format!("Hex encode/decode of {s:?} panicked: {p}"), bytes.len() as u64)),
        Ok((enc, dec)) => {
            if enc != bytes || dec != Ok((s.clone(), 0)) {
                acc.violation(viol(key, format!("Hex {s:?}: encode = {}, decode(bytes) = {dec:?}", hex(&enc)), bytes.len() as u64));
            }
        }
    }
}

fn hexes(acc: &mut Acc) {
    hex_case(&[], acc);
    for a in 0..=255u8 {
        hex_case(&[a], acc);
        for b in 0..=255u8 {
            hex_case(&[a, b], acc);
        }
    }
    for n in [3usize, 4, 7, 8, 15, 16, 31, 32, 33, 63, 64] {
        let v: Vec<u8> = (0..n).map(|i| (i * 29 + n * 3) as u8).collect();
        hex_case(&v, acc);
    }
}

/// position x value on long inputs: every byte value at every position of strings of every length
/// 4..=72 (four and a half 16-byte blocks: word-at-a-time fast paths, SIMD-style block loops),
/// over an ASCII and over a high-half filler, so that a lone special byte sits at every offset of
/// every block; the same for hex strings up to 40 bytes
fn cp437_long_with(filler: u8, acc: &mut Acc) {
    for len in 4..=72usize {
        for pos in 0..len {
            for b in 0..=255u8 {
                if b == 0 && pos == len - 1 {
                    continue; // trailing NUL: not canonical (covered by the short strings)
                }
                let mut s = vec![filler; len];
                s[pos] = b;
                cp437_case(&s, acc);
                acc.count("long_cases", 1);
            }
        }
    }
}
fn cp437_long_ascii(acc: &mut Acc) {
    cp437_long_with(b'x', acc)
}
fn cp437_long_high(acc: &mut Acc) {
    cp437_long_with(0x9a, acc)
}
fn hex_long(acc: &mut Acc) {
    for len in 3..=40usize {
        for pos in 0..len {
            for b in 0..=255u8 {
                let mut s = vec![0x3cu8; len];
                s[pos] = b;
                hex_case(&s, acc);
                acc.count("long_cases", 1);
            }
        }
    }
}

fn receipts(acc: &mut Acc) {
    let mut vals: Vec<usize> = (0..=9999).collect();
    vals.push(0xffff);
    for x in vals {
        acc.count("cases", 1);
        acc.count("calls", 2);
        let key = format!("c17/receipt/{x}");
        let want: Vec<u8> = if x == 0xffff {
            vec![0xff, 0xff]
        } else {
            let b = bcd_min(x as u64);
            let mut w = vec![0u8; 2 - b.len()];
            w.extend(b);
            w
        };
        let r = guarded(|| {
            let bytes = <usize as ZvtSerializerImpl<Fixed<2>, PartialReversalReceiptNo>>::serialize_tagged(&x, None);
            let back = <usize as ZvtSerializerImpl<Fixed<2>, PartialReversalReceiptNo>>::deserialize_tagged(&bytes, None).map(|(v, r)| (v, r.len()));
            (bytes, back)
        });
        match r {
            Err(p) => acc.violation(viol(key, format!("receipt number {x} panicked: {p}"), x as u64)),
            Ok((bytes, back)) => {
                if bytes != want || back != Ok((x, 0)) {
                    acc.violation(viol(key, format!("receipt number {x}: bytes {} (want {}), back {back:?}", hex(&bytes), hex(&want)), x as u64));
                }
            }
        }
    }
}

pub fn run(run: &RunInfo) -> Summary {
    let triples: fn(&mut Acc) = if run.thorough() { cp437_triples_all } else { cp437_triples_high };
    let jobs: Vec<(&str, fn(&mut Acc))> = vec![
        ("c17/cp437/triples", triples),
        ("c17/u8", ints_u8),
        ("c17/u16", ints_u16),
        ("c17/u32", ints_u32),
        ("c17/u64", ints_u64),
        ("c17/usize", ints_usize),
        ("c17/bcd-decode", bcd_strings),
        ("c17/tag", tags),
        ("c17/cp437", cp437),
        ("c17/hex", hexes),
        ("c17/cp437/long-ascii", cp437_long_ascii),
        ("c17/cp437/long-high", cp437_long_high),
        ("c17/hex/long", hex_long),
        ("c17/receipt", receipts),
    ];
    let mut acc = par_for(jobs.len(), |i, acc| {
        if skip_for_replay(run, jobs[i].0) {
            return;
        }
        (jobs[i].1)(acc)
    });
    acc.sample(json!({"type": "u16", "value": 1234, "le": "d204", "be": "04d2", "bcd": "1234"}));
    acc.sample(json!({"bcd_decode": "0256", "as": "u8", "expected": "error (256 does not fit)"}));
    acc.sample(json!({"tag": "0x1f0e", "default_encoding": "1f0e"}));
    if acc.get("bcd_rejected") > 0 {
        acc.witness("BCD digits beyond an integer's range were rejected");
    }
    if acc.get("bcd_ok") > 0 {
        acc.witness("BCD strings decoded to the reference value");
    }
    if acc.get("tags_representable") > 0 {
        acc.witness("representable tags round-tripped");
    }
    let cases = acc.get("cases");
    acc.count("evaluations", cases);
    Summary {
        states: cases,
        transitions: acc.get("calls"),
        traces_validated: cases,
        distinct_nontrivial: acc.set_len("int_values") + acc.get("tags_representable") + acc.set_len("cp437_chars") + acc.get("bcd_rejected"),
        rule: "all u8/u16 values and a defined finite set for u32/u64/usize (digit and bit boundaries, 9 mixed patterns per digit count, all values with exactly two non-zero digits from {1,9}, the 300 values below the maximum) x {LE, BE, BCD}; all 65,536 tags x {BigEndian, Default}; every BCD string of length 0..=5 over nibbles {0,1,9} with optional trailing F and every spelling of max-150..max+1200 for each integer width, decoded as all five integer types; all 256 CP437 bytes in every position of strings of length 1..3 and all three-byte strings over the upper half of the code page (thorough: all 16.7 M three-byte strings); every byte value at every position of CP437 strings of every length 4..=72 over an ASCII and over a high-half filler, and of hex strings of length 3..=40; all hex strings of <=2 bytes; receipt numbers 0..=9999 and FFFF. distinct_nontrivial = distinct integer values + representable tags + distinct decoded texts + rejected BCD strings".into(),
        exhaustive: true,
        required_witnesses: vec![
            "BCD digits beyond an integer's range were rejected".into(),
            "BCD strings decoded to the reference value".into(),
            "representable tags round-tripped".into(),
        ],
        assumptions: vec![
            "BCD nibbles A-E are outside the format (not generated)".into(),
            "tags that the one/two-byte scheme cannot represent (e.g. 0x0100) are outside the domain of the Default tag encoding".into(),
            "u32/u64/usize are covered on a finite boundary set, not on every value".into(),
        ],
        bounds: json!({"u8": "all", "u16": "all", "u32_u64_usize": "boundary set (~700 values per type)", "tags": "all 65536", "bcd_strings": "length <=5 over {0,1,9}+F, plus maxima neighbourhoods"}),
        caps_hit: vec![],
        evaluations_counter: "evaluations".into(),
        acc,
    }
}
