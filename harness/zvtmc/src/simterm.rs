//! SimTerminal: a synchronous, in-memory simulated Feig terminal behind the `zvt_verif`
//! connector hook, driven under tokio's paused clock. It parses the client's APDUs with the
//! reference codec, logs every request with its virtual timestamp and answers according to a
//! per-check policy whose decisions are dbx choices.
use crate::sim::Sh;
use std::cell::RefCell;
use std::collections::{BTreeSet, VecDeque};
use std::future::Future;
use std::pin::Pin;
use std::rc::Rc;
use std::task::{Context, Poll, Waker};
use std::time::Duration;
use tokio::io::{AsyncRead, AsyncWrite, ReadBuf};
use vcore::codec::*;
use vcore::dbx::Ctx;
use vcore::layout::*;
use zvt_feig_terminal::config::{Config, FeigConfig};
use zvt_feig_terminal::verif_hook::{set_connector, ConnectFuture, VerifIo};

pub const ACK: [u8; 3] = [0x80, 0x00, 0x00];

#[derive(Clone, Debug)]
pub enum Step {
    /// a packet the client must acknowledge before the next step is released
    Packet(Vec<u8>, String),
    /// the terminal's own acknowledgement / NACK of a command (no client answer expected)
    Raw(Vec<u8>, String),
    /// virtual delay before the next step
    Delay(Duration),
    /// the terminal closes the connection (reads return end of stream)
    Close,
    /// the terminal resets the connection (reads fail with an I/O error)
    Reset,
    /// the terminal never sends anything again on this connection
    Silence,
    /// a marker in the connection log (e.g. the moment a fault becomes effective)
    Note(String),
}

#[derive(Clone, Debug, PartialEq)]
pub enum ConnEv {
    Opened,
    /// a command of the client (type key of the layout table, raw bytes)
    Command(String, Vec<u8>),
    ClientAck,
    /// bytes of the client that are not a well-formed APDU
    ClientBytes(Vec<u8>),
    /// label of a packet / fault the terminal started to deliver
    Sent(String),
    /// the terminal delivered end-of-stream / reset to the client
    TermClosed,
    /// the client dropped the connection
    Dropped,
}

#[derive(Clone, Debug)]
pub struct ReqRec {
    pub conn: usize,
    pub t_ms: u64,
    pub key: String,
    pub val: Option<Val>,
    pub raw: Vec<u8>,
    /// index in the per-connection event list
    pub seq: usize,
}

pub enum Accept {
    Yes,
    Refuse,
    /// the connect future never resolves
    Never,
}

/// What a check plugs in: how connections are accepted and how each command is answered.
pub trait Policy {
    fn on_connect(&mut self, _t: &mut TermState, _ctx: &mut Ctx, _conn: usize) -> Accept {
        Accept::Yes
    }
    /// steps the terminal performs in answer to a command (including its acknowledgement)
    fn on_command(&mut self, t: &mut TermState, ctx: &mut Ctx, req: &ReqRec) -> Vec<Step>;
    /// the write side of this connection never accepts data
    fn write_stalled(&mut self, _t: &mut TermState, _conn: usize) -> bool {
        false
    }
}

pub struct TermState {
    pub table: &'static Table,
    pub serial: String,
    pub terminal_id: String,
    /// open pre-authorisations known to the terminal
    pub ledger: BTreeSet<u32>,
    /// a pre-authorisation the client does not know about
    pub dangling: Option<u32>,
    pub conns: Vec<Vec<ConnEv>>,
    /// all connection events in global order
    pub glog: Vec<(usize, ConnEv)>,
    /// connections the terminal has closed while they were idle
    pub killed: Vec<usize>,
    pub reqs: Vec<ReqRec>,
    pub start: tokio::time::Instant,
    pub end_of_day_count: u32,
}

impl TermState {
    pub fn now_ms(&self) -> u64 {
        tokio::time::Instant::now().duration_since(self.start).as_millis() as u64
    }
    pub fn traffic_marker(&self) -> (usize, usize) {
        (self.reqs.len(), self.conns.iter().map(|c| c.len()).sum())
    }
    pub fn free_receipt(&self) -> u32 {
        (1..=9u32).find(|r| !self.ledger.contains(r) && self.dangling != Some(*r)).unwrap_or(9)
    }
}

pub struct World {
    pub t: TermState,
    pub policy: Box<dyn Policy>,
    pub ctx: Sh,
}

pub type Shared = Rc<RefCell<World>>;

// ------------------------------------------------------------------ reply builders

pub struct Replies<'a> {
    pub table: &'a Table,
}

impl<'a> Replies<'a> {
    fn enc(&self, key: &str, v: &Val) -> Vec<u8> {
        Codec::new(self.table).encode(self.table.get(key), v).unwrap_or_else(|e| panic!("MACHINERY: reference reply {key} not encodable: {e:?}"))
    }
    pub fn ack(&self) -> Step {
        Step::Raw(ACK.to_vec(), "ack".into())
    }
    pub fn nack(&self, code: u8) -> Step {
        Step::Raw(vec![0x84, code, 0x00], format!("nack-{code:02x}"))
    }
    pub fn completion(&self) -> Step {
        let ty = self.table.get("CompletionData");
        let v = Val::Struct(ty.fields.iter().map(|_| Val::None).collect());
        Step::Packet(self.enc("CompletionData", &v), "completion".into())
    }
    pub fn intermediate(&self, status: u8) -> Step {
        let v = Val::Struct(vec![Val::Int(status as u64), Val::some(Val::Int(0))]);
        Step::Packet(self.enc("IntermediateStatusInformation", &v), "intermediate".into())
    }
    pub fn abort(&self, code: u8) -> Step {
        Step::Packet(self.enc("Abort", &Val::Struct(vec![Val::Int(code as u64)])), format!("abort-{code:02x}"))
    }
    pub fn reversal_abort(&self, code: u8, receipt: Option<u32>) -> Step {
        let v = Val::Struct(vec![Val::Int(code as u64), receipt.map(|r| Val::some(Val::Int(r as u64))).unwrap_or(Val::None)]);
        Step::Packet(self.enc("PartialReversalAbort", &v), format!("reversal-abort-{code:02x}"))
    }
    pub fn print_line(&self, text: &str) -> Step {
        Step::Packet(self.enc("PrintLine", &Val::Struct(vec![Val::Int(1), Val::Text(text.into())])), "print-line".into())
    }
    pub fn print_text_block(&self, lines: &[&str]) -> Step {
        let tl = Val::Struct(vec![Val::List(lines.iter().map(|l| Val::Text((*l).into())).collect()), Val::None]);
        let tlv = Val::Struct(vec![Val::some(Val::Int(1)), Val::some(tl)]);
        Step::Packet(self.enc("PrintTextBlock", &Val::Struct(vec![Val::some(tlv)])), "print-text-block".into())
    }
    pub fn system_info(&self, serial: &str, terminal_id: &str) -> Step {
        let v = Val::Struct(vec![Val::Text(serial.into()), Val::Text("GER-APP-v2.0.9   ".into()), Val::Text(terminal_id.into()), Val::Text("24.4".into())]);
        Step::Packet(self.enc("feig::CVendFunctionsEnhancedSystemInformationCompletion", &v), "system-info".into())
    }
    /// StatusInformation with the given (field name, value) pairs present
    pub fn status(&self, fields: &[(&str, Val)], label: &str) -> Step {
        let ty = self.table.get("StatusInformation");
        let mut vals: Vec<Val> = ty.fields.iter().map(|_| Val::None).collect();
        for (n, v) in fields {
            let i = ty.fields.iter().position(|f| f.name == *n).unwrap_or_else(|| panic!("no StatusInformation field {n}"));
            vals[i] = Val::some(v.clone());
        }
        Step::Packet(self.enc("StatusInformation", &Val::Struct(vals)), label.into())
    }
    /// the TLV container of a StatusInformation for a card: uid (hex) and application ids
    pub fn card_status(&self, uid: Option<&str>, apps: Option<&[Option<&str>]>, with_tlv: bool) -> Step {
        self.card_status_ex(uid, apps, with_tlv, false)
    }

    /// `rich`: all the other fields a real terminal reports along with the card (track data, limits,
    /// ATS/ATQA/SAK ...) are present at the top of their ranges
    pub fn card_status_ex(&self, uid: Option<&str>, apps: Option<&[Option<&str>]>, with_tlv: bool, rich: bool) -> Step {
        let ty = self.table.get("StatusInformation");
        let tt = self.table.get("tlv::StatusInformation");
        let mut vals: Vec<Val> = ty.fields.iter().map(|_| Val::None).collect();
        let rc = ty.fields.iter().position(|f| f.name == "result_code").unwrap();
        vals[rc] = Val::some(Val::Int(0));
        if with_tlv {
            let mut tv: Vec<Val> = tt.fields.iter().map(|f| if f.wrap == Wrap::Vec { Val::List(vec![]) } else { Val::None }).collect();
            if let Some(u) = uid {
                tv[tt.fields.iter().position(|f| f.name == "uuid").unwrap()] = Val::some(Val::Hex(u.to_string()));
            }
            if rich {
                for (n, v) in [
                    ("maximum_pre_autorisation", Val::Int(999_999_999_999)),
                    ("card_identification_item", Val::Hex("3f56a32065cc4dbe8330c37609f91996".into())),
                    ("ats", Val::Hex("0c788074038031c073d631c0".into())),
                    ("card_type", Val::Int(0xff)),
                    ("sub_type", Val::Hex("fe04".into())),
                    ("atqa", Val::Hex("0400".into())),
                    ("sak", Val::Int(0x20)),
                ] {
                    tv[tt.fields.iter().position(|f| f.name == n).unwrap()] = Val::some(v);
                }
            }
            if let Some(a) = apps {
                let subs: Vec<Val> = a.iter().map(|id| Val::Struct(vec![Val::None, id.map(|x| Val::some(Val::Hex(x.to_string()))).unwrap_or(Val::None)])).collect();
                tv[tt.fields.iter().position(|f| f.name == "subs").unwrap()] = Val::List(subs);
            }
            let ti = ty.fields.iter().position(|f| f.name == "tlv").unwrap();
            vals[ti] = Val::some(Val::Struct(tv));
        }
        if rich {
            for (n, v) in [
                ("track_2_data", Val::Hex("6725904411001000142d24122012386013860f".into())),
                ("card_number", Val::Int(u64::MAX)),
                ("expiry_date", Val::Int(9912)),
                ("card_sequence_number", Val::Int(9999)),
                ("card_name", Val::Text("girocard".into())),
                ("zvt_card_type", Val::Int(0xff)),
            ] {
                vals[ty.fields.iter().position(|f| f.name == n).unwrap()] = Val::some(v);
            }
        }
        Step::Packet(self.enc("StatusInformation", &Val::Struct(vals)), "card-status".into())
    }
}

/// Outcome of the main exchange of an operation as the default terminal plays it.
#[derive(Clone, Debug, PartialEq)]
pub enum Outcome {
    Ok,
    Abort(u8),
    /// completion without the status information / receipt number
    NoStatus,
    /// success, with a further status information (without receipt number) ahead of the completion
    OkExtraStatus,
    /// (reservations) a status information naming a receipt number, then the terminal aborts:
    /// nothing is reserved
    StatusThenAbort(u8),
    /// (reservations) completion preceded by a status information that carries a trace number and an
    /// amount but no receipt number
    StatusWithoutReceipt,
}

/// The default (no-deviation) behaviour of the terminal for every command of DESIGN.md
/// Appendix C. `outcome` applies to the operation's final packets.
pub fn default_script(t: &mut TermState, req: &ReqRec, outcome: &Outcome, intermediates: usize) -> Vec<Step> {
    let table: &'static Table = t.table;
    let r = Replies { table };
    let mut s = vec![r.ack()];
    let inter = |s: &mut Vec<Step>| {
        for _ in 0..intermediates {
            s.push(r.intermediate(0x17));
        }
    };
    let field = |name: &str| -> Option<u64> {
        let ty = table.get(&req.key);
        let v = req.val.as_ref()?;
        match v.field(ty, name) {
            Val::Some(b) => match &**b {
                Val::Int(i) => Some(*i),
                _ => None,
            },
            Val::Int(i) => Some(*i),
            _ => None,
        }
    };
    match req.key.as_str() {
        "Registration" => s.push(r.completion()),
        "feig::CVendFunctions" => {
            let (serial, tid) = (t.serial.clone(), t.terminal_id.clone());
            match outcome {
                Outcome::Abort(c) => s.push(r.abort(*c)),
                _ => s.push(r.system_info(&serial, &tid)),
            }
        }
        "SetTerminalId" => match outcome {
            Outcome::Abort(c) => s.push(r.abort(*c)),
            _ => {
                if let Some(id) = field("terminal_id") {
                    t.terminal_id = format!("{:08}", id);
                }
                s.push(r.completion())
            }
        },
        "Initialization" => {
            inter(&mut s);
            match outcome {
                Outcome::Abort(c) => s.push(r.abort(*c)),
                _ => s.push(r.completion()),
            }
        }
        "PartialReversal" => {
            let receipt = field("receipt_no");
            if receipt == Some(0xffff) {
                // pending-transaction query
                inter(&mut s);
                match outcome {
                    Outcome::Abort(c) => s.push(r.reversal_abort(*c, None)),
                    _ => s.push(r.reversal_abort(0xb8, Some(t.dangling.unwrap_or(0xffff)))),
                }
            } else {
                inter(&mut s);
                // the client closes the token whatever the outcome; the simulated terminal forgets the
                // receipt in both cases as well, so receipt numbers stay within 1..=max+1 and the
                // state space of the history search stays finite
                if let Some(rc) = receipt {
                    t.ledger.remove(&(rc as u32));
                }
                match outcome {
                    Outcome::Abort(c) => s.push(r.reversal_abort(*c, None)),
                    o => {
                        if *o == Outcome::Ok {
                            s.push(r.status(
                                &[
                                    ("result_code", Val::Int(0)),
                                    ("amount", Val::Int(field("amount").unwrap_or(0))),
                                    ("trace_number", Val::Int(975)),
                                    ("time", Val::Int(225558)),
                                    ("date", Val::Int(405)),
                                    ("terminal_id", Val::Int(52523535)),
                                    ("receipt_no", Val::Int(receipt.unwrap_or(0))),
                                ],
                                "status",
                            ));
                        }
                        s.push(r.completion());
                    }
                }
            }
        }
        "PreAuthReversal" => {
            inter(&mut s);
            if let Some(rc) = field("receipt_no") {
                t.ledger.remove(&(rc as u32));
            }
            match outcome {
                Outcome::Abort(c) => s.push(r.reversal_abort(*c, None)),
                _ => {
                    if let Some(rc) = field("receipt_no") {
                        if t.dangling == Some(rc as u32) {
                            t.dangling = None;
                        }
                    }
                    s.push(r.completion());
                }
            }
        }
        "EndOfDay" => {
            inter(&mut s);
            match outcome {
                Outcome::Abort(c) => s.push(r.reversal_abort(*c, None)),
                _ => {
                    t.end_of_day_count += 1;
                    s.push(r.completion())
                }
            }
        }
        "ReadCard" => {
            inter(&mut s);
            match outcome {
                Outcome::Abort(c) => s.push(r.abort(*c)),
                _ => s.push(r.card_status(Some("0000000000081ca72f"), None, true)),
            }
        }
        "Reservation" => {
            inter(&mut s);
            match outcome {
                Outcome::Abort(c) => s.push(r.abort(*c)),
                Outcome::StatusThenAbort(c) => {
                    let rc = t.free_receipt();
                    s.push(r.status(&[("result_code", Val::Int(*c as u64)), ("amount", Val::Int(field("amount").unwrap_or(0))), ("receipt_no", Val::Int(rc as u64))], "status-of-declined-reservation"));
                    s.push(r.abort(*c));
                }
                Outcome::NoStatus => s.push(r.completion()),
                Outcome::StatusWithoutReceipt => {
                    s.push(r.status(&[("result_code", Val::Int(0)), ("amount", Val::Int(field("amount").unwrap_or(0))), ("trace_number", Val::Int(975)), ("currency", Val::Int(field("currency").unwrap_or(978)))], "status-without-receipt"));
                    s.push(r.completion());
                }
                Outcome::Ok | Outcome::OkExtraStatus => {
                    let rc = t.free_receipt();
                    t.ledger.insert(rc);
                    s.push(r.status(&[("result_code", Val::Int(0)), ("amount", Val::Int(field("amount").unwrap_or(0))), ("receipt_no", Val::Int(rc as u64)), ("currency", Val::Int(field("currency").unwrap_or(978)))], "status"));
                    if *outcome == Outcome::OkExtraStatus {
                        s.push(r.status(&[("result_code", Val::Int(0)), ("trace_number", Val::Int(975))], "status-without-receipt"));
                    }
                    s.push(r.completion());
                }
            }
        }
        _ => s.push(r.nack(0x83)),
    }
    s
}

// ------------------------------------------------------------------ the connection object

pub struct TermConn {
    id: usize,
    w: Shared,
    inbuf: Vec<u8>,
    out: VecDeque<Step>,
    cur: Vec<u8>,
    awaiting_ack: bool,
    closed: bool,
    /// the connection closes as soon as the bytes being delivered have been read
    close_after_cur: bool,
    /// a Close step directly behind a Raw step takes effect with the last byte of the Raw step
    /// (set by a Note("mode:close-eagerly") step)
    close_eagerly: bool,
    reset: bool,
    silent: bool,
    read_waker: Option<Waker>,
    sleep: Option<Pin<Box<tokio::time::Sleep>>>,
}

unsafe impl Send for TermConn {}

impl TermConn {
    fn ev(&self, e: ConnEv) {
        let mut w = self.w.borrow_mut();
        w.t.glog.push((self.id, e.clone()));
        w.t.conns[self.id].push(e);
    }
    fn killed(&self) -> bool {
        self.w.borrow().t.killed.contains(&self.id)
    }
}

impl Drop for TermConn {
    fn drop(&mut self) {
        if let Ok(mut w) = self.w.try_borrow_mut() {
            let id = self.id;
            w.t.glog.push((id, ConnEv::Dropped));
            w.t.conns[id].push(ConnEv::Dropped);
        }
    }
}

impl AsyncRead for TermConn {
    fn poll_read(mut self: Pin<&mut Self>, cx: &mut Context<'_>, buf: &mut ReadBuf<'_>) -> Poll<std::io::Result<()>> {
        loop {
            if !self.cur.is_empty() {
                let n = self.cur.len().min(buf.remaining());
                buf.put_slice(&self.cur[..n]);
                self.cur.drain(..n);
                if self.cur.is_empty() && self.close_after_cur {
                    // the terminal hangs up right behind these bytes: whatever the client writes next fails
                    self.close_after_cur = false;
                    self.closed = true;
                    self.ev(ConnEv::TermClosed);
                }
                return Poll::Ready(Ok(()));
            }
            if self.reset {
                return Poll::Ready(Err(std::io::Error::new(std::io::ErrorKind::ConnectionReset, "reset by the simulated terminal")));
            }
            if !self.closed && self.killed() {
                self.closed = true;
                self.ev(ConnEv::TermClosed);
            }
            if self.closed {
                return Poll::Ready(Ok(()));
            }
            if self.silent || self.awaiting_ack || self.out.is_empty() {
                self.read_waker = Some(cx.waker().clone());
                return Poll::Pending;
            }
            match self.out.front().cloned().unwrap() {
                Step::Packet(b, label) => {
                    self.out.pop_front();
                    self.cur = b;
                    self.awaiting_ack = true;
                    self.ev(ConnEv::Sent(label));
                }
                Step::Raw(b, label) => {
                    self.out.pop_front();
                    self.cur = b;
                    self.ev(ConnEv::Sent(label));
                    if matches!(self.out.front(), Some(Step::Close)) && self.close_eagerly {
                        self.out.pop_front();
                        self.close_after_cur = true;
                    }
                }
                Step::Delay(d) => {
                    if self.sleep.is_none() {
                        self.sleep = Some(Box::pin(tokio::time::sleep(d)));
                    }
                    match self.sleep.as_mut().unwrap().as_mut().poll(cx) {
                        Poll::Pending => return Poll::Pending,
                        Poll::Ready(()) => {
                            self.sleep = None;
                            self.out.pop_front();
                        }
                    }
                }
                Step::Close => {
                    self.out.pop_front();
                    self.closed = true;
                    self.ev(ConnEv::TermClosed);
                }
                Step::Reset => {
                    self.out.pop_front();
                    self.reset = true;
                    self.ev(ConnEv::TermClosed);
                }
                Step::Silence => {
                    self.out.pop_front();
                    self.silent = true;
                    self.ev(ConnEv::Sent("silence".into()));
                }
                Step::Note(n) => {
                    self.out.pop_front();
                    if n == "mode:close-eagerly" {
                        self.close_eagerly = true;
                    } else {
                        self.ev(ConnEv::Sent(n));
                    }
                }
            }
        }
    }
}

impl AsyncWrite for TermConn {
    fn poll_write(mut self: Pin<&mut Self>, _cx: &mut Context<'_>, data: &[u8]) -> Poll<std::io::Result<usize>> {
        let id = self.id;
        let stalled = {
            let w = &mut *self.w.borrow_mut();
            w.policy.write_stalled(&mut w.t, id)
        };
        if stalled {
            // never accepts data and never wakes the writer
            return Poll::Pending;
        }
        if !self.closed && self.killed() {
            self.closed = true;
            self.ev(ConnEv::TermClosed);
        }
        if self.closed || self.reset {
            return Poll::Ready(Err(std::io::Error::new(std::io::ErrorKind::BrokenPipe, "connection closed by the simulated terminal")));
        }
        self.inbuf.extend_from_slice(data);
        loop {
            if self.inbuf.len() < 3 {
                break;
            }
            let (hl, len) = if self.inbuf[2] == 0xff {
                if self.inbuf.len() < 5 {
                    break;
                }
                (5, self.inbuf[3] as usize | ((self.inbuf[4] as usize) << 8))
            } else {
                (3, self.inbuf[2] as usize)
            };
            if self.inbuf.len() < hl + len {
                break;
            }
            let pkt: Vec<u8> = self.inbuf.drain(..hl + len).collect();
            if pkt == ACK {
                self.awaiting_ack = false;
                self.ev(ConnEv::ClientAck);
                continue;
            }
            // a command
            let steps = {
                let w = &mut *self.w.borrow_mut();
                let table: &'static Table = w.t.table;
                let key = table.commands().iter().filter(|ty| ty.ctrl == Some((pkt[0], pkt[1]))).map(|ty| ty.key.clone()).find(|k| request_types().contains(&k.as_str()));
                let key = key.unwrap_or_else(|| format!("unknown-{:02x}{:02x}", pkt[0], pkt[1]));
                let val = if key.starts_with("unknown") { None } else { Codec::new(table).decode(table.get(&key), &pkt).ok().map(|x| x.0) };
                let seq = w.t.conns[id].len();
                w.t.glog.push((id, ConnEv::Command(key.clone(), pkt.clone())));
                w.t.conns[id].push(ConnEv::Command(key.clone(), pkt.clone()));
                let rec = ReqRec { conn: id, t_ms: w.t.now_ms(), key, val, raw: pkt.clone(), seq };
                w.t.reqs.push(rec.clone());
                let mut ctx = w.ctx.borrow_mut();
                w.policy.on_command(&mut w.t, &mut ctx, &rec)
            };
            self.out.extend(steps);
        }
        if let Some(wk) = self.read_waker.take() {
            wk.wake();
        }
        Poll::Ready(Ok(data.len()))
    }
    fn poll_flush(self: Pin<&mut Self>, _cx: &mut Context<'_>) -> Poll<std::io::Result<()>> {
        Poll::Ready(Ok(()))
    }
    fn poll_shutdown(self: Pin<&mut Self>, _cx: &mut Context<'_>) -> Poll<std::io::Result<()>> {
        Poll::Ready(Ok(()))
    }
}

/// commands a client sends (control fields are shared with replies, e.g. 06 0F)
pub fn request_types() -> &'static [&'static str] {
    &[
        "Registration",
        "feig::CVendFunctions",
        "SetTerminalId",
        "Initialization",
        "PartialReversal",
        "PreAuthReversal",
        "EndOfDay",
        "ReadCard",
        "Reservation",
        "Authorization",
        "Diagnosis",
        "StatusEnquiry",
        "ResetTerminal",
        "PrintSystemConfiguration",
        "SelectLanguage",
    ]
}

struct NeverFut;
impl Future for NeverFut {
    type Output = std::io::Result<Box<dyn VerifIo>>;
    fn poll(self: Pin<&mut Self>, _cx: &mut Context<'_>) -> Poll<Self::Output> {
        Poll::Pending
    }
}
struct SendFut<F>(F);
unsafe impl<F> Send for SendFut<F> {}
impl<F: Future + Unpin> Future for SendFut<F> {
    type Output = F::Output;
    fn poll(mut self: Pin<&mut Self>, cx: &mut Context<'_>) -> Poll<Self::Output> {
        Pin::new(&mut self.0).poll(cx)
    }
}

pub struct Sim {
    pub w: Shared,
    pub rt: tokio::runtime::Runtime,
}

pub const SERIAL: &str = "17FD1E3C";
pub const TERMINAL_ID: &str = "52523535";

pub fn base_config() -> Config {
    Config {
        terminal_id: TERMINAL_ID.to_string(),
        feig_serial: SERIAL.to_string(),
        ip_address: std::net::Ipv4Addr::new(10, 0, 0, 7),
        feig_config: FeigConfig { currency: 978, pre_authorization_amount: 2500, read_card_timeout: 15, password: 123456 },
        transactions_max_num: 1,
    }
}

impl Sim {
    pub fn new(ctx: Sh, policy: Box<dyn Policy>) -> Sim {
        let rt = tokio::runtime::Builder::new_current_thread().enable_time().start_paused(true).build().expect("runtime");
        let start = {
            let _g = rt.enter();
            tokio::time::Instant::now()
        };
        let t = TermState {
            table: shipped_static(),
            serial: SERIAL.to_string(),
            terminal_id: TERMINAL_ID.to_string(),
            ledger: BTreeSet::new(),
            dangling: None,
            conns: vec![],
            glog: vec![],
            killed: vec![],
            reqs: vec![],
            start,
            end_of_day_count: 0,
        };
        let w: Shared = Rc::new(RefCell::new(World { t, policy, ctx }));
        let w2 = w.clone();
        set_connector(Some(Box::new(move |_addr| -> ConnectFuture {
            let w3 = w2.clone();
            let decision = {
                let w = &mut *w3.borrow_mut();
                let id = w.t.conns.len();
                let mut ctx = w.ctx.borrow_mut();
                let d = w.policy.on_connect(&mut w.t, &mut ctx, id);
                if matches!(d, Accept::Yes) {
                    w.t.glog.push((id, ConnEv::Opened));
                    w.t.conns.push(vec![ConnEv::Opened]);
                } else {
                    w.t.conns.push(vec![]);
                }
                (d, id)
            };
            match decision {
                (Accept::Never, _) => Box::pin(NeverFut),
                (Accept::Refuse, _) => Box::pin(SendFut(std::future::ready(Err(std::io::Error::new(std::io::ErrorKind::ConnectionRefused, "refused by the simulated terminal"))))),
                (Accept::Yes, id) => {
                    let conn = TermConn { id, w: w3, inbuf: vec![], out: VecDeque::new(), cur: vec![], awaiting_ack: false, closed: false, close_after_cur: false, close_eagerly: false, reset: false, silent: false, read_waker: None, sleep: None };
                    let b: Box<dyn VerifIo> = Box::new(conn);
                    Box::pin(SendFut(std::future::ready(Ok(b))))
                }
            }
        })));
        Sim { w, rt }
    }

    /// Runs one client call under the virtual-day watchdog. None = the call did not return.
    pub fn call<F: Future>(&self, fut: F) -> Option<F::Output> {
        {
            let w = self.w.borrow();
            let ctx = w.ctx.borrow();
            vcore::report::watch_enter(|| format!("client call #{} of the execution with choices {:?} (requests seen so far: {})", w.t.glog.len(), ctx.choices(), w.t.glog.iter().filter(|(_, e)| matches!(e, ConnEv::Command(..))).count()));
        }
        let r = self.rt.block_on(async { tokio::time::timeout(Duration::from_secs(86_400), fut).await.ok() });
        vcore::report::watch_exit();
        r
    }

    pub fn now_ms(&self) -> u64 {
        let _g = self.rt.enter();
        self.w.borrow().t.now_ms()
    }
}

impl Drop for Sim {
    fn drop(&mut self) {
        set_connector(None);
    }
}
