//! zvtmc: bounded-exhaustive checks of davisriedel/zvt, one sub-command per property.
use std::time::Instant;
use vcore::report::*;

#[macro_use]
mod builders;
mod c0103;
mod c02;
mod c04;
mod c05;
mod c06;
mod c07;
mod c08;
mod c09;
mod c10;
mod c13;
mod c18;
mod c19;
mod c20;
mod c14;
mod c15;
mod c16;
mod c17;
mod client;
mod cs;
mod errmsgs;
mod hist;
mod real;
mod scen;
mod seqs;
mod sim;
mod simterm;
mod wf;
mod util;

#[global_allocator]
static ALLOC: vcore::alloc::Counting = vcore::alloc::Counting;

fn usage() -> ! {
    eprintln!("usage: zvtmc <C01..C20> <quick|thorough> [--replay FILE]");
    std::process::exit(EXIT_MACHINERY)
}

fn main() {
    let args: Vec<String> = std::env::args().collect();
    if args.len() < 3 {
        usage();
    }
    let property = args[1].clone();
    let tier = args[2].clone();
    if tier != "quick" && tier != "thorough" {
        usage();
    }
    let mut replay_only = None;
    if args.len() >= 5 && args[3] == "--replay" {
        let txt = std::fs::read_to_string(&args[4]).unwrap_or_else(|e| {
            eprintln!("MACHINERY: cannot read replay file {}: {e}", args[4]);
            std::process::exit(EXIT_MACHINERY)
        });
        let mut v: serde_json::Value = serde_json::from_str(&txt).unwrap_or_else(|e| {
            eprintln!("MACHINERY: cannot parse replay file: {e}");
            std::process::exit(EXIT_MACHINERY)
        });
        v["__path"] = serde_json::json!(args[4]);
        replay_only = Some(v);
    }
    let seed = std::env::var("VERIF_SEED").ok().and_then(|s| s.parse::<i64>().ok()).unwrap_or(0) as u64;
    let verif_dir = std::env::var("VERIF_DIR").unwrap_or_else(|_| "/verif".to_string());
    let tier = if let Some(r) = &replay_only { r["tier"].as_str().unwrap_or(&tier).to_string() } else { tier };
    let run = RunInfo { property: property.clone(), tier, seed, start: Instant::now(), verif_dir, replay_only };
    quiet_panics();
    // wall-clock monitor: a call into the real code that spins without ever yielding cannot be
    // interrupted by the virtual clock or by poll budgets
    start_watchdog_mode(&run.property, &run.verif_dir, 20, 24 << 30, matches!(property.as_str(), "C02" | "C04" | "C05" | "C06" | "C10" | "C11"));
    let summary = match property.as_str() {
        "C01" => c0103::run(&run, false),
        "C02" => c02::run(&run),
        "C03" => c0103::run(&run, true),
        "C04" => c04::run(&run),
        "C05" => c05::run(&run),
        "C06" => c06::run(&run),
        "C07" => c07::run(&run),
        "C08" => c08::run(&run),
        "C09" => c09::run(&run),
        "C10" => c10::run(&run),
        "C11" => wf::run_c11(&run),
        "C18" => c18::run(&run),
        "C20" => c20::run(&run),
        "C19" => c19::run(&run),
        "C13" => c13::run(&run),
        "C14" => c14::run(&run),
        "C15" => c15::run(&run),
        "C16" => c16::run(&run),
        "C17" => c17::run(&run),
        _ => {
            eprintln!("MACHINERY: no check for property {property}");
            std::process::exit(EXIT_MACHINERY)
        }
    };
    let code = finish(&run, summary);
    std::process::exit(code);
}
