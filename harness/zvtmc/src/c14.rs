//! C14 - a decoded packet depends only on the bytes inside its announced length.
use crate::cs::*;
use crate::real::*;
use crate::util::*;
use serde_json::json;
use std::fmt::Debug;
use vcore::codec::*;
use vcore::layout::*;
use vcore::report::*;
use vcore::tree::*;
use vcore::values::*;
use zvt_builder::encoding::{Bcd, BigEndian, Default as Dflt, Encoding, Hex};
use zvt_builder::length::{Adpu, Fixed, Length, Llv, Lllv, Tlv};
use zvt_builder::{Tag, ZvtSerializerImpl};

fn corpus() -> Vec<Vec<u8>> {
    let mut out = vec![];
    if let Ok(rd) = std::fs::read_dir("/repo/zvt/data") {
        let mut names: Vec<_> = rd.filter_map(|e| e.ok()).map(|e| e.path()).collect();
        names.sort();
        for p in names {
            if let Ok(b) = std::fs::read(&p) {
                out.push(b);
            }
        }
    }
    out
}

fn generic_suffixes(corpus: &[Vec<u8>]) -> Vec<Vec<u8>> {
    let mut s: Vec<Vec<u8>> = vec![];
    for b in 0..=255u8 {
        s.push(vec![b]);
    }
    let alpha = [0x00u8, 0x06, 0x1f, 0x80, 0x81, 0x82, 0xff];
    for a in alpha {
        for b in alpha {
            s.push(vec![a, b]);
            for c in alpha {
                s.push(vec![a, b, c]);
            }
        }
    }
    for c in corpus {
        if c.len() <= 400 {
            s.push(c.clone());
        }
    }
    s
}

fn packets(run: &RunInfo, acc_total: &mut Acc) {
    let table = shipped();
    let k = if run.thorough() { 2 } else { 1 };
    let cmds = table.commands();
    let reg = registry();
    let corp = corpus();
    let gens = generic_suffixes(&corp);
    let mut items: Vec<(usize, Slice)> = vec![];
    for (ti, ty) in cmds.iter().enumerate() {
        for s in slices(&table, ty) {
            items.push((ti, s));
        }
    }
    let acc = par_for(items.len(), |ix, acc| {
        let (ti, slice) = &items[ix];
        let ty = cmds[*ti];
        let codec = Codec::new(&table);
        let real = reg.iter().find(|r| r.key == ty.key).unwrap();
        // type-aware suffixes: every tag the type knows, alone and followed by a small valid group
        let mut tags = vec![];
        all_tags(&table, ty, &mut tags);
        tags.sort();
        tags.dedup();
        let mut suffixes = gens.clone();
        for t in &tags {
            let tb = tag_bytes(*t);
            suffixes.push(tb.clone());
            let mut g = tb.clone();
            g.extend([0x01, 0x05]);
            suffixes.push(g);
            let mut g = tb.clone();
            g.extend([0x05]);
            suffixes.push(g);
            let mut g = tb;
            g.extend([0xf0, 0xf1, 0x05, 0x00, 0x00, 0x00, 0x00, 0x00, 0x00]);
            suffixes.push(g);
        }
        visit_slice(&table, ty, slice, k, &mut |v, origin| {
            if origin == "sizing" {
                // keep the sizes that straddle the 127/128 and 254/255/256 switches
                let Some(b) = codec.encode(ty, v).ok() else { return };
                let n = b.len();
                if !(n <= 24 || (120..=140).contains(&n) || (245..=270).contains(&n) || n == 1068 + 20) {
                    return;
                }
            }
            let Some(bytes) = codec.canonical(ty, v) else { return };
            acc.count("values", 1);
            acc.set("values", h64(&bytes));
            if bytes.len() >= 258 {
                acc.witness("packet with extended length header followed by a suffix");
            }
            let base = match guarded(|| (real.decode)(&bytes)) {
                Ok(Ok((dbg, 0, _))) => dbg,
                Ok(Ok((dbg, rest, off))) => {
                    // the packet decodes, but the remainder does not start at the end of the announced
                    // length although nothing follows the packet
                    acc.violation(viol(
                        format!("c14/packet/{}/{}/{:016x}/alone", ty.key, deviating(&table, ty, v), h64(&bytes)),
                        format!("type {} ({origin})\npacket : {}\nalone  : {dbg}\nthe remainder is {rest} bytes at offset {off}; the packet announces exactly {} bytes and nothing follows it", ty.key, hex_short(&bytes), bytes.len()),
                        bytes.len() as u64,
                    ));
                    return;
                }
                other => {
                    // decoding the packet on its own fails: that is C03's subject, not C14's
                    acc.count("undecodable_alone", 1);
                    let _ = other;
                    return;
                }
            };
            let mut own = suffixes.clone();
            own.push(bytes.clone());
            for suf in &own {
                acc.count("cases", 1);
                acc.count("calls", 1);
                let mut input = bytes.clone();
                input.extend_from_slice(suf);
                let key = format!("c14/packet/{}/{}/{:016x}/suffix={}", ty.key, deviating(&table, ty, v), h64(&bytes), hex_short(suf));
                let bad = |what: String| {
                    viol(
                        key.clone(),
                        format!("type {} ({origin})\npacket : {}\nsuffix : {}\nalone  : {base}\n{what}", ty.key, hex_short(&bytes), hex_short(suf)),
                        (bytes.len() + suf.len()) as u64,
                    )
                };
                match guarded(|| (real.decode)(&input)) {
                    Err(p) => acc.violation(bad(format!("with the suffix the decoder panicked: {p}"))),
                    Ok(Err(e)) => acc.violation(bad(format!("with the suffix decoding fails: {e:?}"))),
                    Ok(Ok((dbg, rest, off))) => {
                        if dbg != base || rest != suf.len() || off != bytes.len() {
                            acc.violation(bad(format!("with suffix: {dbg}\nremainder: {rest} bytes at offset {off} (expected {} bytes at offset {})", suf.len(), bytes.len())));
                        } else {
                            acc.count("suffix_untouched", 1);
                        }
                    }
                }
            }
        });
    });
    acc_total.merge(acc);
}

// ---------------------------------------------------------------- packets in other than the canonical form

fn orders(n: usize) -> Vec<Vec<usize>> {
    fn rec(cur: &mut Vec<usize>, used: &mut Vec<bool>, n: usize, out: &mut Vec<Vec<usize>>) {
        if cur.len() == n {
            out.push(cur.clone());
            return;
        }
        for i in 0..n {
            if !used[i] {
                used[i] = true;
                cur.push(i);
                rec(cur, used, n, out);
                cur.pop();
                used[i] = false;
            }
        }
    }
    if n <= 4 {
        let mut out = vec![];
        rec(&mut vec![], &mut vec![false; n], n, &mut out);
        out.retain(|o| o.iter().enumerate().any(|(i, x)| i != *x));
        out
    } else {
        let mut out: Vec<Vec<usize>> = vec![(0..n).rev().collect()];
        for r in 1..n {
            out.push((0..n).map(|i| (i + r) % n).collect());
        }
        out
    }
}

/// Complete packets whose content is not in the encoder's form: tagged groups in another order,
/// a group the type does not know at any position of any nesting level, date/time parts with
/// other than the usual widths. Whatever the decoder makes of the packet alone (value, error, where
/// it stops), it must make the same of the packet followed by a suffix, with the suffix added to
/// the remainder; and where the reference decoder accepts the packet, value and stop position
/// must be the reference's.
fn noncanonical(run: &RunInfo, acc_total: &mut Acc) {
    let table = shipped();
    let cmds = table.commands();
    let reg = registry();
    let acc = par_for(cmds.len(), |ti, acc| {
        let ty = cmds[ti];
        let codec = Codec::new(&table);
        let real = reg.iter().find(|r| r.key == ty.key).unwrap();
        let mut known = vec![];
        all_tags(&table, ty, &mut known);
        let foreign: Vec<u16> = vec![[0x7eu16, 0x5a, 0x33, 0x6e].into_iter().find(|t| !known.contains(t)).unwrap(), [0x1f7fu16, 0x1f7e, 0xff7e].into_iter().find(|t| !known.contains(t)).unwrap()];
        let mut suffixes: Vec<Vec<u8>> = vec![vec![0x00], vec![0x06], vec![0x1f], vec![0xff], vec![0x80, 0x00, 0x00], vec![0x1f, 0x0e, 0x04, 0x20, 0x23, 0x01, 0x01]];
        known.sort();
        known.dedup();
        for t in known.iter().take(6) {
            let mut g = tag_bytes(*t);
            g.extend([0x01, 0x05]);
            suffixes.push(g);
        }
        let mut bases: Vec<(String, Vec<u8>)> = vec![];
        let mut values = vec![baseline(&table, ty)];
        for pick in 0..3 {
            values.push(all_present(&table, ty, pick, 2));
        }
        for v in &values {
            let Some(_) = codec.canonical(ty, v) else { continue };
            let Ok((bytes, spans)) = codec.encode_mapped(ty, v) else { continue };
            let nodes = build(&bytes, &spans);
            if render(ty, &nodes).as_deref() != Some(&bytes[..]) {
                eprintln!("MACHINERY: encoded tree of {} does not render to the reference bytes", ty.key);
                std::process::exit(EXIT_MACHINERY);
            }
            for (lp, _) in levels(&nodes) {
                let lvl = level(&nodes, &lp).to_vec();
                let runs = tagged_runs(&lvl);
                if runs.is_empty() {
                    continue;
                }
                let first_tagged = runs[0].0;
                let n = runs.len();
                let mk = |edited: Vec<Node>| -> Option<Vec<u8>> {
                    let mut t = nodes.clone();
                    *level_mut(&mut t, &lp) = edited;
                    render(ty, &t)
                };
                if n >= 2 {
                    for ord in orders(n) {
                        let mut edited: Vec<Node> = lvl[..first_tagged].to_vec();
                        for &r in &ord {
                            let (s0, l) = runs[r];
                            edited.extend_from_slice(&lvl[s0..s0 + l]);
                        }
                        if let Some(p) = mk(edited) {
                            bases.push((format!("level {lp:?} reordered as {ord:?}"), p));
                        }
                    }
                }
                for &ft in &foreign {
                    for plen in [0usize, 2] {
                        for pos in 0..=n {
                            let at = if pos < n { runs[pos].0 } else { lvl.len() };
                            let mut edited = lvl.clone();
                            edited.insert(at, Node { path: "foreign".into(), tagnum: Some(ft), tag: tag_bytes(ft), style: Len::Ber, body: Body::Leaf(vec![0x5a; plen]), repeated: false, mandatory: false, enc: Enc::Raw, pad: 0, prefix_override: None });
                            if let Some(p) = mk(edited) {
                                bases.push((format!("level {lp:?}: foreign group {ft:04x} with {plen} payload bytes at position {pos}"), p));
                            }
                        }
                    }
                }
            }
            // date/time parts of other widths
            fn dt_paths(nodes: &[Node], path: &mut Vec<usize>, out: &mut Vec<Vec<usize>>) {
                for (i, n) in nodes.iter().enumerate() {
                    path.push(i);
                    match &n.body {
                        Body::Leaf(_) if n.enc == Enc::Dt => out.push(path.clone()),
                        Body::Kids(k) => dt_paths(k, path, out),
                        _ => {}
                    }
                    path.pop();
                }
            }
            let mut dts = vec![];
            dt_paths(&nodes, &mut vec![], &mut dts);
            for path in dts {
                let (dir, last) = path.split_at(path.len() - 1);
                let Body::Leaf(leaf) = level(&nodes, dir)[last[0]].body.clone() else { continue };
                if leaf.len() != 13 {
                    continue;
                }
                let (d, t) = (leaf[3..7].to_vec(), leaf[10..13].to_vec());
                let dates: Vec<Vec<u8>> = vec![[vec![0x1f, 0x0e, 4], d.clone()].concat(), [vec![0x1f, 0x0e, 5, 0], d.clone()].concat(), [vec![0x1f, 0x0e, 3], d[1..].to_vec()].concat(), [vec![0x1f, 0x0e, 6, 0, 0], d.clone()].concat()];
                let times: Vec<Vec<u8>> = vec![[vec![0x1f, 0x0f, 3], t.clone()].concat(), [vec![0x1f, 0x0f, 4, 0], t.clone()].concat(), [vec![0x1f, 0x0f, 2], t[1..].to_vec()].concat(), [vec![0x1f, 0x0f, 1], t[2..].to_vec()].concat()];
                for (di, dd) in dates.iter().enumerate() {
                    for (ti2, tt) in times.iter().enumerate() {
                        if di == 0 && ti2 == 0 {
                            continue;
                        }
                        for swap in [false, true] {
                            let payload = if swap { [tt.clone(), dd.clone()].concat() } else { [dd.clone(), tt.clone()].concat() };
                            let mut tr = nodes.clone();
                            level_mut(&mut tr, dir)[last[0]].body = Body::Leaf(payload);
                            if let Some(p) = render(ty, &tr) {
                                bases.push((format!("date/time parts: date in {} bytes, time in {} bytes{}", dd[2], tt[2], if swap { ", time first" } else { "" }), p));
                            }
                        }
                    }
                }
            }
        }
        bases.sort_by(|a, b| a.1.cmp(&b.1));
        bases.dedup_by(|a, b| a.1 == b.1);
        for (what, p) in &bases {
            acc.count("noncanonical_bases", 1);
            acc.count("calls", 1);
            let alone = guarded(|| (real.decode)(p));
            let describe = |more: String| format!("type {}\nedit   : {what}\npacket : {}\nalone  : {:?}\n{more}", ty.key, hex_short(p), alone);
            let key0 = format!("c14/noncanonical/{}/{:016x}", ty.key, h64(p));
            let alone_ok = match &alone {
                Err(pn) => {
                    acc.violation(viol(key0.clone(), describe(format!("the decoder panicked: {pn}")), p.len() as u64));
                    continue;
                }
                Ok(Err(_)) => None,
                Ok(Ok(x)) => Some(x.clone()),
            };
            // the reference decoder's view of the packet alone
            if let (Some((dbg, _rest, _off)), Ok((rv, _used))) = (&alone_ok, codec.decode(ty, p)) {
                acc.count("cases", 1);
                let want = codec.debug_string(ty, &rv);
                if *dbg != want {
                    acc.violation(viol(format!("{key0}/reference"), describe(format!("the independent layout gives {want}")), p.len() as u64));
                } else {
                    acc.count("noncanonical_reference_agreed", 1);
                }
            }
            for suf in &suffixes {
                acc.count("cases", 1);
                acc.count("calls", 1);
                let mut input = p.clone();
                input.extend_from_slice(suf);
                let with = guarded(|| (real.decode)(&input));
                let good = match (&alone_ok, &with) {
                    (None, Ok(Err(_))) => true,
                    (Some((dbg, rest, off)), Ok(Ok((d2, r2, o2)))) => d2 == dbg && *r2 == rest + suf.len() && o2 == off,
                    _ => false,
                };
                if good {
                    acc.count("noncanonical_suffix_untouched", 1);
                } else {
                    acc.violation(viol(format!("{key0}/suffix={}", hex_short(suf)), describe(format!("suffix : {}\nwith it: {:?}\nexpected the same value (or an error again) and the suffix added to the remainder", hex_short(suf), with)), (p.len() + suf.len()) as u64));
                }
            }
        }
    });
    acc_total.merge(acc);
}

// ---------------------------------------------------------------- the narrow seam

const SEAM_SUFFIXES: [&[u8]; 12] = [&[], &[0x00], &[0x06], &[0x1f], &[0x27], &[0x81], &[0x82], &[0xff], &[0xf0, 0xf1], &[0x82, 0x00, 0x01], &[0x1f, 0x45, 0x01, 0x09], &[0x27, 0x01, 0x09]];

fn seam<T, L, E>(name: &str, vals: &[T], acc: &mut Acc)
where
    T: ZvtSerializerImpl<L, E, Dflt> + PartialEq + Debug,
    L: Length,
    E: Encoding<T>,
{
    for tag in [None, Some(0x27u16), Some(0x1f45u16)] {
        for v in vals {
            let enc = match guarded(|| v.serialize_tagged(tag.map(Tag))) {
                Ok(e) => e,
                Err(_) => {
                    acc.count("seam_unencodable", 1);
                    continue;
                }
            };
            let mut sufs: Vec<Vec<u8>> = SEAM_SUFFIXES.iter().map(|s| s.to_vec()).collect();
            sufs.push(enc.clone());
            for b in (0..=255u8).step_by(1) {
                sufs.push(vec![b]);
            }
            let alpha = [0x00u8, 0x06, 0x1f, 0x80, 0x81, 0x82, 0xff];
            for a in alpha {
                for b in alpha {
                    for c in alpha {
                        sufs.push(vec![a, b, c]);
                    }
                }
            }
            for suf in sufs {
                acc.count("cases", 1);
                acc.count("calls", 1);
                acc.count("seam_cases", 1);
                let mut input = enc.clone();
                input.extend_from_slice(&suf);
                let key = format!("c14/seam/{name}/tag={tag:?}/{}/suffix={}", hex_short(&enc), hex_short(&suf));
                let r = guarded(|| T::deserialize_tagged(&input, tag.map(Tag)).map(|(x, rest)| (x == *v, rest.to_vec(), format!("{x:?}"))));
                match r {
                    Err(p) => acc.violation(viol(key, format!("{name} value {v:?}: deserialize_tagged({}) panicked: {p}", hex_short(&input)), input.len() as u64)),
                    Ok(Err(e)) => acc.violation(viol(key, format!("{name} value {v:?}: deserialize_tagged({}) = Err({e:?})", hex_short(&input)), input.len() as u64)),
                    Ok(Ok((eq, rest, dbg))) => {
                        if !eq || rest != suf {
                            acc.violation(viol(
                                key,
                                format!("{name} value {v:?}: deserialize_tagged({}) = ({dbg}, remainder {}), expected the value and remainder {}", hex_short(&input), hex_short(&rest), hex_short(&suf)),
                                input.len() as u64,
                            ));
                        }
                    }
                }
            }
        }
    }
}

/// Repeated fields at the same seam: the items, then bytes that are not a further item (another
/// tag, the field's own tag alone, its tag with a cut-off or unusable item). The vector must be
/// the encoded one and the remainder must start where the last item ends.
fn seam_vec<T, L, E>(name: &str, vals: &[Vec<T>], acc: &mut Acc)
where
    T: ZvtSerializerImpl<L, E, Dflt> + PartialEq + Debug + Clone,
    Vec<T>: ZvtSerializerImpl<L, E, Dflt>,
    L: Length,
    E: Encoding<T>,
{
    for tag in [0x27u16, 0x1f45u16] {
        let tb = tag_bytes(tag);
        for v in vals {
            let enc = match guarded(|| v.serialize_tagged(Some(Tag(tag)))) {
                Ok(e) => e,
                Err(_) => continue,
            };
            let mut sufs: Vec<Vec<u8>> = vec![vec![], vec![0x00], vec![0x06], vec![0x28], vec![0x28, 0x01, 0x09], vec![0xff], vec![0x1f], vec![0x1f, 0x46, 0x01, 0x09]];
            // the field's own tag: alone, with a length byte and nothing else, with an item cut short,
            // with a length form the style does not know
            sufs.push(tb.clone());
            if name.starts_with("tlv") {
                sufs.push([tb.clone(), vec![0x05]].concat());
                sufs.push([tb.clone(), vec![0x05, 0x41]].concat());
                sufs.push([tb.clone(), vec![0x80, 0x41, 0x42, 0x43]].concat());
                sufs.push([tb.clone(), vec![0x83, 0x00, 0x00, 0x01, 0x41]].concat());
                sufs.push([tb.clone(), vec![0x82, 0x01]].concat());
            } else {
                sufs.push([tb.clone(), vec![0xf0]].concat());
                sufs.push([tb.clone(), vec![0xf0, 0xf5, 0x41]].concat());
            }
            for suf in sufs {
                acc.count("cases", 1);
                acc.count("calls", 1);
                acc.count("seam_cases", 1);
                acc.count("seam_vec_cases", 1);
                let mut input = enc.clone();
                input.extend_from_slice(&suf);
                let key = format!("c14/seam-vec/{name}/tag={tag:04x}/{}/suffix={}", hex_short(&enc), hex_short(&suf));
                let r = guarded(|| <Vec<T> as ZvtSerializerImpl<L, E, Dflt>>::deserialize_tagged(&input, Some(Tag(tag))).map(|(x, rest)| (x == *v, rest.to_vec(), format!("{x:?}"))));
                match r {
                    Err(p) => acc.violation(viol(key, format!("{name} items {v:?}: deserialize_tagged({}) panicked: {p}", hex_short(&input)), input.len() as u64)),
                    Ok(Err(e)) => acc.violation(viol(key, format!("{name} items {v:?}: deserialize_tagged({}) = Err({e:?}); expected the items and the remainder {}", hex_short(&input), hex_short(&suf)), input.len() as u64)),
                    Ok(Ok((eq, rest, dbg))) => {
                        if !eq || rest != suf {
                            acc.violation(viol(key, format!("{name} items {v:?}: deserialize_tagged({}) = ({dbg}, remainder {}), expected the items and the remainder {}", hex_short(&input), hex_short(&rest), hex_short(&suf)), input.len() as u64));
                        } else {
                            acc.count("seam_vec_ok", 1);
                        }
                    }
                }
            }
        }
    }
}

fn seams(acc: &mut Acc) {
    {
        let s = |n: usize| -> String { (0..n).map(|i| (b'a' + (i % 26) as u8) as char).collect() };
        seam_vec::<String, Tlv, Dflt>("tlv/strings", &[vec![s(5), s(5)], vec![s(1)], vec![s(127), s(128)], vec![String::new(), s(3)]], acc);
        seam_vec::<u16, Tlv, BigEndian>("tlv/u16-be", &[vec![1, 0x1234], vec![0xffff]], acc);
        seam_vec::<u8, Tlv, Dflt>("tlv/u8", &[vec![1, 2, 3], vec![0]], acc);
        seam_vec::<usize, Tlv, Bcd>("tlv/usize-bcd", &[vec![5, 978], vec![1234567]], acc);
        seam_vec::<String, Llv, Dflt>("llv/strings", &[vec![s(5), s(9)], vec![s(99)]], acc);
    }
    let s = |n: usize| -> String { (0..n).map(|i| (b'a' + (i % 26) as u8) as char).collect() };
    let hx = |n: usize| -> String { (0..n).map(|i| format!("{:02x}", (i * 7 + 3) & 0xff)).collect() };
    // variable-length styles
    macro_rules! var_styles {
        ($($l:ty : $ln:literal : $maxlen:expr),*) => {$(
            seam::<u8, $l, Bcd>(concat!($ln, "/u8/bcd"), &[0, 1, 9, 10, 99, 100, 255], acc);
            seam::<u16, $l, Bcd>(concat!($ln, "/u16/bcd"), &[0, 1, 99, 100, 9999, 10000, 65535], acc);
            seam::<u32, $l, Bcd>(concat!($ln, "/u32/bcd"), &[0, 7, 123456, 99999999, u32::MAX], acc);
            seam::<u64, $l, Bcd>(concat!($ln, "/u64/bcd"), &[0, 5, 1234567890123, u64::MAX], acc);
            seam::<usize, $l, Bcd>(concat!($ln, "/usize/bcd"), &[0, 5, 5598845555548074, usize::MAX], acc);
            seam::<u8, $l, Dflt>(concat!($ln, "/u8/le"), &[0, 1, 0x7f, 0x80, 0xff], acc);
            seam::<u16, $l, Dflt>(concat!($ln, "/u16/le"), &[0, 1, 0x1234, 0xffff], acc);
            seam::<u16, $l, BigEndian>(concat!($ln, "/u16/be"), &[0, 1, 0x1234, 0xffff], acc);
            seam::<u32, $l, Dflt>(concat!($ln, "/u32/le"), &[0, 0x12345678, u32::MAX], acc);
            seam::<u32, $l, BigEndian>(concat!($ln, "/u32/be"), &[0, 0x12345678, u32::MAX], acc);
            seam::<u64, $l, BigEndian>(concat!($ln, "/u64/be"), &[0, 0x1234_5678_9abc_def0, u64::MAX], acc);
            {
                let mut texts = vec![String::new(), s(1), s(10), s(99)];
                let mut hexes = vec![String::new(), "00".to_string(), "ff".to_string(), hx(8), hx(99)];
                for n in [100usize, 127, 128, 254, 255, 256, 999] {
                    if n <= $maxlen {
                        texts.push(s(n));
                        hexes.push(hx(n));
                    }
                }
                seam::<String, $l, Dflt>(concat!($ln, "/string/cp437"), &texts, acc);
                seam::<String, $l, Hex>(concat!($ln, "/string/hex"), &hexes, acc);
            }
        )*};
    }
    var_styles!(Tlv : "tlv" : 65535usize, Llv : "llv" : 99usize, Lllv : "lllv" : 999usize, Adpu : "apdu" : 65535usize);
    // fixed width
    seam::<usize, Fixed<1>, Bcd>("fixed1/usize/bcd", &[0, 1, 9, 10, 99], acc);
    seam::<usize, Fixed<2>, Bcd>("fixed2/usize/bcd", &[0, 1, 99, 100, 978, 9999], acc);
    seam::<usize, Fixed<3>, Bcd>("fixed3/usize/bcd", &[0, 1, 123456, 999999], acc);
    seam::<usize, Fixed<4>, Bcd>("fixed4/usize/bcd", &[0, 52523535, 99999999], acc);
    seam::<usize, Fixed<5>, Bcd>("fixed5/usize/bcd", &[0, 12345, 9999999999], acc);
    seam::<usize, Fixed<6>, Bcd>("fixed6/usize/bcd", &[0, 2500, 999999999999], acc);
    seam::<usize, Fixed<7>, Bcd>("fixed7/usize/bcd", &[0, 2500, 99999999999999], acc);
    seam::<usize, Fixed<8>, Bcd>("fixed8/usize/bcd", &[0, 2500, 9999999999999999], acc);
    seam::<u8, Fixed<1>, Dflt>("fixed1/u8/le", &[0, 1, 0x80, 0xff], acc);
    seam::<u16, Fixed<2>, Dflt>("fixed2/u16/le", &[0, 1, 0x1234, 0xffff], acc);
    seam::<u16, Fixed<2>, BigEndian>("fixed2/u16/be", &[0, 1, 0x1234, 0xffff], acc);
    seam::<u32, Fixed<4>, BigEndian>("fixed4/u32/be", &[0, 0x12345678, u32::MAX], acc);
    seam::<u64, Fixed<8>, Dflt>("fixed8/u64/le", &[0, 0x1234_5678_9abc_def0, u64::MAX], acc);
    seam::<String, Fixed<1>, Dflt>("fixed1/string", &[s(1)], acc);
    seam::<String, Fixed<3>, Dflt>("fixed3/string", &[s(3)], acc);
    seam::<String, Fixed<8>, Dflt>("fixed8/string", &[s(8)], acc);
    seam::<String, Fixed<15>, Dflt>("fixed15/string", &[s(15)], acc);
    seam::<String, Fixed<4>, Hex>("fixed4/hex", &[hx(4)], acc);
}

pub fn run(run: &RunInfo) -> Summary {
    let mut acc = Acc::new();
    if !skip_for_replay(run, "c14/packet") {
        packets(run, &mut acc);
    }
    if !skip_for_replay(run, "c14/noncanonical") {
        noncanonical(run, &mut acc);
    }
    if acc.get("noncanonical_suffix_untouched") > 0 && acc.get("noncanonical_reference_agreed") > 0 {
        acc.witness("packets in other than the encoder's form decoded alike with and without a suffix");
    }
    if !skip_for_replay(run, "c14/seam") {
        let a = par_for(1, |_, acc| seams(acc));
        acc.merge(a);
    }
    if acc.get("suffix_untouched") > 0 {
        acc.witness("suffixes were handed back untouched");
    }
    if acc.get("seam_vec_ok") > 0 {
        acc.witness("repeated fields stopped at the end of their last item");
    }
    if acc.get("seam_cases") > 0 {
        acc.witness("length-prefixed containers exercised at the deserialize_tagged seam");
    }
    acc.sample(json!({"packet": "061e016c (Abort)", "suffix": "27", "expected": "same value, remainder 27"}));
    acc.sample(json!({"seam": "tlv/string/cp437 tag 0x1f45", "value": "abcdefghij", "suffix": "8200 01"}));
    let cases = acc.get("cases");
    acc.count("evaluations", cases);
    let k = if run.thorough() { 2 } else { 1 };
    Summary {
        states: acc.set_len("values") + acc.get("seam_cases"),
        transitions: acc.get("calls"),
        traces_validated: cases,
        distinct_nontrivial: acc.get("suffix_untouched") + acc.get("seam_cases"),
        rule: format!("31 commands x canonical values (<= {k} deviating fields, all-present rows, sizing rows straddling 127/128 and 254/255/256) x suffixes (every single byte, 49 two-byte and 343 three-byte strings over {{00,06,1F,80,81,82,FF}}, every captured blob, the packet itself, every tag of the type alone and followed by a small group); plus, for baseline and all-present values of every command, the packet with the tagged groups of any nesting level reordered (all orders up to 4 groups), with a group unknown to the type at every position of every level, and with date/time parts announced in 1..6 bytes: the value alone against the independent layout, and value, error and stop position against the same packet followed by up to 12 suffixes; plus deserialize_tagged for Tlv/Llv/Lllv/Adpu/Fixed<1..8> x integer/BCD/text/hex encodings x tag {{none, 27, 1F45}} x 611 suffixes, and for repeated fields (Vec) of five item kinds followed by bytes that are no further item (another tag, the own tag alone, with a cut-off item, with an unknown length form). distinct_nontrivial = (value, suffix) cases that decoded with the suffix handed back"),
        exhaustive: true,
        required_witnesses: vec![
            "suffixes were handed back untouched".into(),
            "packet with extended length header followed by a suffix".into(),
            "length-prefixed containers exercised at the deserialize_tagged seam".into(),
            "packets in other than the encoder's form decoded alike with and without a suffix".into(),
            "repeated fields stopped at the end of their last item".into(),
        ],
        assumptions: vec!["suffixes are taken from a finite alphabet, not all byte strings".into(), "greedy positional containers without an announced length are outside the statement".into()],
        bounds: json!({"deviating_fields_k": k, "suffix_kinds": "single bytes, 2-byte alphabet, blobs, self, type tags"}),
        caps_hit: vec![],
        evaluations_counter: "evaluations".into(),
        acc,
    }
}
