//! C10 - no terminal stall or configuration value can hang a client call.
use crate::client::*;
use crate::scen::*;
use crate::sim::Sh;
use crate::simterm::*;
use crate::util::*;
use serde_json::json;
use std::cell::RefCell;
use std::rc::Rc;
use std::time::Duration;
use vcore::dbx::{self, Ctx};
use vcore::report::*;
use zvt_feig_terminal::config::Config;

#[derive(Clone, Debug, PartialEq)]
enum Persist {
    /// (exchange kind, packet index within the answer) at which the terminal falls silent on
    /// the next `left` connections (u32::MAX: always)
    Packet(Xch, usize, u32),
    Connect(u32),
    Writes(u32),
}

#[derive(Default)]
struct StallSt {
    persist: Option<Persist>,
    /// connections on which the persistent stall was already applied
    applied_on: Vec<usize>,
}

/// upper bound of the virtual time a call may take: every exchange makes at most 20 attempts,
/// each at most 2 s throttle + the reconnect (<= T) + at most 5 awaited items (<= T each)
fn bound_ms(op: &Op, t_s: u64) -> u64 {
    let exchanges = match op {
        Op::Configure => 6,
        Op::Commit(..) | Op::Cancel(_) => 4,
        _ => 1,
    };
    exchanges * 20 * (2 + 6 * t_s) * 1000
}

fn timeout_s(op: &Op, cfg: &Config) -> u64 {
    if matches!(op, Op::ReadCard) {
        cfg.feig_config.read_card_timeout as u64 + 2
    } else {
        60
    }
}

struct CaseOut {
    lines: Vec<String>,
    problems: Vec<String>,
    max_elapsed_ms: u64,
    stalled: bool,
}

/// runs `ops` (after Feig::new) with the stall choices taken from `ctx`
fn run_ops(ctx: &mut Ctx, cfg: &Config, ops: &[Op], explore_stalls: bool, forced: Option<Persist>, reply_delay_ms: u64, acc: &mut Acc) -> CaseOut {
    let sh: Sh = Rc::new(RefCell::new(std::mem::replace(ctx, Ctx::new(vec![], vec![], 0))));
    let st = Rc::new(RefCell::new(StallSt { persist: forced, applied_on: vec![] }));
    let (st2, st3) = (st.clone(), st.clone());
    let stall_writes: Rc<RefCell<Vec<usize>>> = Rc::new(RefCell::new(vec![]));
    let hook: Hook = Box::new(move |t, ctx, req, x, _nth| {
        let mut steps = default_script(t, req, &Outcome::Ok, 1);
        if reply_delay_ms > 0 && x == Xch::Main {
            // the final reply arrives late, but within the time-out
            let last = steps.pop().unwrap();
            steps.push(Step::Delay(Duration::from_millis(reply_delay_ms)));
            steps.push(last);
        }
        let mut s = st2.borrow_mut();
        // a finite stall that has run out makes room for a further one (thorough tier)
        if matches!(s.persist, Some(Persist::Packet(_, _, 0)) | Some(Persist::Connect(0)) | Some(Persist::Writes(0))) {
            s.persist = None;
        }
        // a persistent stall chosen earlier
        if let Some(Persist::Packet(px, pk, left)) = s.persist.clone() {
            if px == x && !s.applied_on.contains(&req.conn) {
                let applies = left > 0;
                if applies {
                    s.applied_on.push(req.conn);
                    if left != u32::MAX {
                        s.persist = Some(Persist::Packet(px, pk, left - 1));
                    }
                    let idx: Vec<usize> = steps.iter().enumerate().filter(|(_, s)| matches!(s, Step::Packet(..) | Step::Raw(..))).map(|(i, _)| i).collect();
                    if let Some(&cut) = idx.get(pk) {
                        steps.truncate(cut);
                        steps.push(Step::Silence);
                    }
                    return Some(steps);
                }
            }
            return Some(steps);
        }
        if s.persist.is_some() || !explore_stalls {
            return Some(steps);
        }
        // explore: the terminal may fall silent before any packet of this answer
        let idx: Vec<usize> = steps.iter().enumerate().filter(|(_, s)| matches!(s, Step::Packet(..) | Step::Raw(..))).map(|(i, _)| i).collect();
        for (k, &i) in idx.iter().enumerate() {
            let c = ctx.dev(5, "stall");
            if c == 4 {
                // the terminal closes the connection here (no stall): combined with a later stall
                // this reaches the paths that follow an I/O error on a connection that was kept
                steps.truncate(i);
                steps.push(Step::Close);
                return Some(steps);
            }
            if c > 0 {
                let left = [0, 0, 2, u32::MAX - 1, 0][c];
                s.persist = Some(Persist::Packet(x, k, if c == 3 { u32::MAX } else { left }));
                s.applied_on.push(req.conn);
                steps.truncate(i);
                steps.push(Step::Silence);
                return Some(steps);
            }
        }
        Some(steps)
    });
    let sw = stall_writes.clone();
    let connect: Box<dyn FnMut(&mut TermState, &mut Ctx, usize) -> Accept> = Box::new(move |_t, ctx, conn| {
        let mut s = st3.borrow_mut();
        match s.persist.clone() {
            Some(Persist::Connect(left)) if left > 0 => {
                if left != u32::MAX {
                    s.persist = Some(Persist::Connect(left - 1));
                }
                return Accept::Never;
            }
            Some(Persist::Writes(left)) if left > 0 => {
                if left != u32::MAX {
                    s.persist = Some(Persist::Writes(left - 1));
                }
                sw.borrow_mut().push(conn);
                return Accept::Yes;
            }
            Some(_) => return Accept::Yes,
            None => {}
        }
        if !explore_stalls {
            return Accept::Yes;
        }
        match ctx.dev(7, "connect-stall") {
            0 => Accept::Yes,
            c @ 1..=3 => {
                s.persist = Some(Persist::Connect([0, 0, 2, u32::MAX][c]));
                Accept::Never
            }
            c => {
                s.persist = Some(Persist::Writes([0, 2, u32::MAX][c - 4]));
                sw.borrow_mut().push(conn);
                Accept::Yes
            }
        }
    });
    let mut out = CaseOut { lines: vec![], problems: vec![], max_elapsed_ms: 0, stalled: false };
    {
        let sc = Scenario::full(sh.clone(), hook, Some(connect), stall_writes.clone());
        let check = |label: String, res_short: String, hung: bool, panicked: bool, elapsed: u64, bound: u64, out: &mut CaseOut| {
            out.lines.push(format!("{label} -> {res_short} after {:.3} s of virtual time (bound {} s)", elapsed as f64 / 1000.0, bound / 1000));
            out.max_elapsed_ms = out.max_elapsed_ms.max(elapsed);
            if hung {
                out.problems.push(format!("{label} did not return within a virtual day"));
            } else if panicked {
                out.problems.push(format!("{label} panicked: {res_short}"));
            } else if elapsed > bound {
                out.problems.push(format!("{label} returned only after {} s, the retry budget and per-packet time-out allow at most {} s", elapsed / 1000, bound / 1000));
            }
        };
        let t0 = sc.sim.now_ms();
        sc.start_op(&Op::Configure);
        let feig = crate::client::new_feig(&sc.sim, cfg.clone());
        let el = sc.sim.now_ms() - t0;
        match feig {
            Err(e) => {
                let hung = e.contains("did not return");
                check("Feig::new".into(), e.clone(), hung, !hung, el, bound_ms(&Op::Configure, 60), &mut out);
            }
            Ok(mut feig) => {
                check("Feig::new".into(), "ok".into(), false, false, el, bound_ms(&Op::Configure, 60), &mut out);
                for op in ops {
                    let t0 = sc.sim.now_ms();
                    let r = sc.run(&mut feig, op);
                    let el = sc.sim.now_ms() - t0;
                    acc.count("transitions", 1);
                    let (hung, pan) = (matches!(r, OpResult::Hung), matches!(r, OpResult::Panicked(_)));
                    check(op.label(), r.short(), hung, pan, el, bound_ms(op, timeout_s(op, cfg)), &mut out);
                    if reply_delay_ms > 0 && matches!(op, Op::ReadCard) && !r.is_ok() {
                        out.problems.push(format!("read_card with read_card_timeout = {}: the card data arrived after {} ms, well inside the time-out of {} s, but the call failed: {}", cfg.feig_config.read_card_timeout, reply_delay_ms, cfg.feig_config.read_card_timeout as u64 + 2, r.short()));
                    }
                    if hung || pan {
                        break;
                    }
                }
                drop(feig);
            }
        }
        out.stalled = st.borrow().persist.is_some();
        // the write-stall list is shared with the policy through the scenario
        drop(sc);
    }
    *ctx = Rc::try_unwrap(sh).ok().expect("context still shared").into_inner();
    out
}

pub fn run(run: &RunInfo) -> Summary {
    // with a logger installed at the most verbose level, as in a deployment that logs: the arguments
    // of the client's and the sequences' logging statements are evaluated on every path explored
    crate::util::logging(true);
    let thorough = run.thorough();
    let a = || "A".to_string();
    let scenarios: Vec<(&str, usize, Vec<Op>)> = vec![
        ("read_card", 1, vec![Op::ReadCard]),
        ("begin", 1, vec![Op::Begin(a())]),
        ("commit", 1, vec![Op::Begin(a()), Op::Commit(a(), 1295)]),
        ("cancel", 1, vec![Op::Begin(a()), Op::Cancel(a())]),
        ("commit-non-idle", 2, vec![Op::Begin(a()), Op::Begin("B".into()), Op::Commit(a(), 0)]),
        ("configure", 1, vec![Op::Configure]),
    ];
    enum W {
        Stalls(usize),
        Timeout(u8),
        Cfg(usize),
    }
    // configuration extremes
    let mut cfgs: Vec<(String, Config)> = vec![];
    for max in [0usize, 1, usize::MAX] {
        let mut c = base_config();
        c.transactions_max_num = max;
        cfgs.push((format!("transactions_max_num={max}"), c));
    }
    for pw in [0usize, 999_999] {
        let mut c = base_config();
        c.feig_config.password = pw;
        cfgs.push((format!("password={pw}"), c));
    }
    for am in [0usize, 999_999_999_999] {
        let mut c = base_config();
        c.feig_config.pre_authorization_amount = am;
        cfgs.push((format!("pre_authorization_amount={am}"), c));
    }
    for cur in [0usize, 9999] {
        let mut c = base_config();
        c.feig_config.currency = cur;
        cfgs.push((format!("currency={cur}"), c));
    }
    for tid in ["", "abc", "99999999", "123456789012345678901234567890"] {
        let mut c = base_config();
        c.terminal_id = tid.into();
        cfgs.push((format!("terminal_id={tid:?}"), c));
    }
    let mut work: Vec<W> = vec![];
    for i in 0..scenarios.len() {
        work.push(W::Stalls(i));
    }
    for t in 0..=255u8 {
        work.push(W::Timeout(t));
    }
    for i in 0..cfgs.len() {
        work.push(W::Cfg(i));
    }
    let mut acc = par_for(work.len(), |ix, acc| match &work[ix] {
        W::Stalls(si) => {
            let (name, max, ops) = &scenarios[*si];
            if skip_for_replay(run, &format!("c10/stall/{name}/")) {
                return;
            }
            let mut cfg = base_config();
            cfg.transactions_max_num = *max;
            let st = dbx::explore(2, 50_000_000, |ctx| {
                let o = run_ops(ctx, &cfg, ops, true, None, 0, acc);
                acc.count("executions", 1);
                acc.max("max_elapsed_s", o.max_elapsed_ms / 1000);
                if o.stalled {
                    acc.count("w_stalled", 1);
                    if o.max_elapsed_ms >= 20 * 60 * 1000 {
                        acc.count("w_budget_exhausted", 1);
                    }
                }
                acc.set("outcomes", h64(&(name, &o.lines)));
                if !o.problems.is_empty() {
                    let choices = ctx.choices();
                    let which: Vec<(&str, u32, usize)> = ctx.trace.iter().enumerate().filter(|(_, c)| c.taken != 0).map(|(i, c)| (c.label, c.taken, i)).collect();
                    acc.violation(viol(
                        format!("c10/stall/{name}/choices={choices:?}"),
                        format!("scenario {name}; stall choice (label, alternative [1 = this connection, 2 = first 3 connections, 3 = every connection], position): {which:?}\n  {}\nviolations:\n  {}", o.lines.join("\n  "), o.problems.join("\n  ")),
                        ctx.deviations as u64,
                    ));
                }
            });
            acc.max("max_depth", st.max_depth);
        }
        W::Timeout(t) => {
            let key = format!("c10/read_card_timeout={t}");
            if skip_for_replay(run, &key) {
                return;
            }
            let mut cfg = base_config();
            cfg.feig_config.read_card_timeout = *t;
            // (i) reply delayed by one second must be accepted; (ii) a silent terminal must not hang the call
            // finite silences inside the time-out T = read_card_timeout + 2 s: 1 s, T/2, T - 1 ms, and the
            // module-wide 60 s time-out of the other operations +- 1 ms wherever that is still inside T
            let t_ms = (*t as u64 + 2) * 1000;
            let mut modes: Vec<(String, Option<Persist>, u64)> = vec![("reply after 1 s".into(), None, 1000u64), ("terminal silent on every connection".into(), Some(Persist::Packet(Xch::Main, 1, u32::MAX)), 0)];
            for d in [t_ms / 2, t_ms - 1, 59_999, 60_000, 60_001] {
                if d > 1000 && d < t_ms && !modes.iter().any(|m| m.2 == d) {
                    modes.push((format!("reply after {d} ms of silence (inside the time-out of {t_ms} ms)"), None, d));
                }
            }
            for (mode, forced, delay) in modes {
                let mode = mode.as_str();
                let mut ctx = Ctx::new(vec![], vec![], 0);
                let o = run_ops(&mut ctx, &cfg, &[Op::ReadCard], false, forced, delay, acc);
                acc.count("executions", 1);
                acc.count("w_timeouts_swept", 1);
                acc.max("max_elapsed_s", o.max_elapsed_ms / 1000);
                acc.set("outcomes", h64(&(*t, mode, &o.lines)));
                if !o.problems.is_empty() {
                    acc.violation(viol(format!("{key}/{mode}"), format!("read_card_timeout = {t}, {mode}\n  {}\nviolations:\n  {}", o.lines.join("\n  "), o.problems.join("\n  ")), *t as u64));
                }
            }
        }
        W::Cfg(ci) => {
            let (label, cfg) = &cfgs[*ci];
            let key = format!("c10/config/{label}");
            if skip_for_replay(run, &key) {
                return;
            }
            for (mode, forced) in [("responsive terminal", None), ("terminal silent after the acknowledgement on every connection", Some(Persist::Packet(Xch::Main, 1, u32::MAX))), ("terminal silent during registration on every connection", Some(Persist::Packet(Xch::H1, 1, u32::MAX)))] {
                let ops = vec![Op::ReadCard, Op::Begin("A".into()), Op::Commit("A".into(), 1), Op::Cancel("A".into()), Op::Configure];
                let mut ctx = Ctx::new(vec![], vec![], 0);
                let o = run_ops(&mut ctx, cfg, &ops, false, forced, 0, acc);
                acc.count("executions", 1);
                acc.count("w_configs", 1);
                acc.max("max_elapsed_s", o.max_elapsed_ms / 1000);
                acc.set("outcomes", h64(&(label, mode, &o.lines)));
                if !o.problems.is_empty() {
                    acc.violation(viol(format!("{key}/{mode}"), format!("configuration {label}, {mode}\n  {}\nviolations:\n  {}", o.lines.join("\n  "), o.problems.join("\n  ")), 0));
                }
            }
        }
    });
    for (c, w) in [
        ("w_stalled", "the terminal fell silent at some packet position"),
        ("w_budget_exhausted", "a persistent stall exhausted the retry budget and the call still returned"),
        ("w_timeouts_swept", "every read_card_timeout value was exercised"),
        ("w_configs", "configuration extremes were exercised"),
    ] {
        if acc.get(c) > 0 {
            acc.witness(w);
        }
    }
    acc.sample(json!({"scenario": "commit", "stall": "every connection falls silent before the completion of the end-of-day exchange", "expected": "the call returns an error after at most 20 attempts"}));
    acc.sample(json!({"read_card_timeout": 255, "reply_after_ms": 1000, "expected": "card data accepted"}));
    let execs = acc.get("executions");
    acc.count("evaluations", execs);
    Summary {
        states: acc.set_len("outcomes"),
        transitions: acc.get("transitions"),
        traces_validated: execs,
        distinct_nontrivial: acc.set_len("outcomes"),
        rule: "real Feig client against the simulated terminal under the paused clock: 6 scenarios (Feig::new + read_card / begin / commit / cancel / commit with another transaction open / configure) x a stall at every terminal-to-client packet position of every exchange (handshake included), at connect (future never resolving) and on the write side (data never accepted), each lasting for this connection only, for the first three connections, or for every connection, and the terminal closing the connection at any packet position; every pair of such faults per history; read_card_timeout 0..=255 each with a reply delayed by 1 s, by half the time-out T, by T - 1 ms and by 60 s -1/+0/+1 ms where that is inside T (must be accepted) and with a permanently silent terminal; transactions_max_num {0,1,usize::MAX}, password/amount/currency at both ends of their wire range, empty / non-numeric / oversized terminal ids, each with a responsive and with a silent terminal. A logger that formats every record is installed at level Trace throughout. Oracle: every call returns, no panic, virtual elapsed time <= exchanges x 20 x (2 s + 6 x T)".into(),
        exhaustive: true,
        required_witnesses: vec![
            "the terminal fell silent at some packet position".into(),
            "a persistent stall exhausted the retry budget and the call still returned".into(),
            "every read_card_timeout value was exercised".into(),
            "configuration extremes were exercised".into(),
        ],
        assumptions: vec![
            "configuration values that cannot be represented in their wire field (password >= 10^6, amount >= 10^12) make the encoder panic and are outside the domain".into(),
            "at most two faults (stall or close) per history".into(),
        ],
        bounds: json!({"stall_budget": 1, "read_card_timeout": "0..=255"}),
        caps_hit: vec![],
        evaluations_counter: "evaluations".into(),
        acc,
    }
}
