//! Call histories of the real Feig client against the simulated terminal, in lock-step with the
//! reference client model (DESIGN.md 5.5). Shared by C07 (token map) and C19 (idle clean-up);
//! each check gets its own list of problems so that neither reports the other's subject.
use crate::client::*;
use crate::sim::Sh;
use crate::simterm::*;
use std::cell::RefCell;
use std::rc::Rc;
use vcore::dbx::Ctx;
use vcore::layout::Table;
use vcore::report::*;

#[derive(Clone, Debug, PartialEq)]
pub enum Eod {
    Completion,
    /// a status information ahead of the completion
    StatusCompletion,
    Abort(u8),
}

#[derive(Clone)]
pub struct HistParams {
    pub max: usize,
    pub depth: usize,
    pub ops: Vec<Op>,
    pub dangling: Option<u32>,
    pub reservation_menu: Vec<Outcome>,
    pub commit_menu: Vec<Outcome>,
    pub cancel_menu: Vec<Outcome>,
    pub eod_menu: Vec<Eod>,
    /// informational packets the terminal may add to or drop from a reply are explorer deviations
    pub noise: bool,
    /// every reply packet of the operations' exchanges is delayed by this many milliseconds
    /// (a slow terminal that stays within the per-packet time-out)
    pub delay_ms: u64,
    /// which property the run is about: the history ends at the first problem of that property
    /// (problems of the other one do not end it, so that each check stands on its own)
    pub focus19: bool,
    /// after every end-of-day the terminal holds the same dangling pre-authorisation again (its
    /// receipt counter restarts): the next clean-up has to reverse that number once more
    pub rearm_dangling: bool,
    /// transport faults (the fault menu of C09) are explorer deviations at every terminal-to-client
    /// packet of every exchange after Feig::new, reconnect handshakes included
    pub faults: bool,
}

pub struct PolSt {
    pub op: Op,
    pub tracker: Tracker,
    /// (exchange, outcome, receipt issued by a successful reservation)
    pub chosen: Vec<(Xch, Outcome, Option<u32>)>,
    pub eod_chosen: Option<Eod>,
    /// dangling receipt the terminal reported in the pending query of this operation
    pub reported: Option<Option<u32>>,
    pub lazy: bool,
    pub p: HistParams,
    pub declined_after_status: u64,
    /// a fault was injected into an exchange of the current operation
    pub faulted: bool,
    /// outcome chosen for each kind of main request during the current operation
    pub picked: Vec<(String, Outcome)>,
}

pub struct HistPolicy {
    pub st: Rc<RefCell<PolSt>>,
}

impl Policy for HistPolicy {
    fn on_command(&mut self, t: &mut TermState, ctx: &mut Ctx, req: &ReqRec) -> Vec<Step> {
        let mut st = self.st.borrow_mut();
        let op = st.op.clone();
        let x = st.tracker.classify(t.table, &op, req);
        let pick = |menu: &Vec<Outcome>, ctx: &mut Ctx, label: &'static str| -> Outcome {
            if menu.len() > 1 {
                menu[ctx.any(menu.len(), label)].clone()
            } else {
                menu.first().cloned().unwrap_or(Outcome::Ok)
            }
        };
        let mut outcome = Outcome::Ok;
        // a command the client sends again within the same call (after a fault or a time-out) gets the
        // outcome chosen for it the first time: one choice per call and exchange, not one per attempt
        // (a client that re-sends up to 20 times would otherwise multiply the executions by menu^20)
        let again = if x == Xch::Main { st.picked.iter().find(|(k, _)| *k == req.key).map(|(_, o)| o.clone()) } else { None };
        if let (true, Some(o)) = (st.lazy, again.clone()) {
            outcome = o;
        }
        if st.lazy && again.is_none() {
            match (x, req.key.as_str()) {
                (Xch::Main, "Reservation") => outcome = pick(&st.p.reservation_menu, ctx, "reservation-outcome"),
                (Xch::Main, "PartialReversal") => outcome = pick(&st.p.commit_menu, ctx, "commit-outcome"),
                (Xch::Main, "PreAuthReversal") => outcome = pick(&st.p.cancel_menu, ctx, "cancel-outcome"),
                (Xch::P1, _) => st.reported = Some(t.dangling),
                (Xch::P3, _) => {
                    let e = if st.p.eod_menu.len() > 1 { st.p.eod_menu[ctx.any(st.p.eod_menu.len(), "end-of-day-outcome")].clone() } else { st.p.eod_menu.first().cloned().unwrap_or(Eod::Completion) };
                    st.eod_chosen = Some(e.clone());
                    if let Eod::Abort(c) = e {
                        outcome = Outcome::Abort(c);
                    }
                }
                _ => {}
            }
        }
        if st.lazy && x == Xch::Main && again.is_none() {
            st.picked.push((req.key.clone(), outcome.clone()));
        }
        let issued = if req.key == "Reservation" && matches!(outcome, Outcome::Ok | Outcome::OkExtraStatus) { Some(t.free_receipt()) } else { None };
        // for the model a reservation declined after a status information is a declined reservation
        let for_model = match &outcome {
            Outcome::StatusThenAbort(c) => Outcome::Abort(*c),
            Outcome::StatusWithoutReceipt => Outcome::NoStatus,
            o => o.clone(),
        };
        if matches!(outcome, Outcome::StatusThenAbort(_)) {
            st.declined_after_status += 1;
        }
        st.chosen.push((x, for_model, issued));
        let mut steps = default_script(t, req, &outcome, 1);
        if st.p.rearm_dangling && req.key == "EndOfDay" && st.lazy {
            t.dangling = st.p.dangling;
        }
        if st.lazy && st.p.noise && matches!(x, Xch::Main | Xch::P1 | Xch::P2 | Xch::P3) && req.key != "ReadCard" {
            // deviations from the default reply shape: no / two intermediate statuses, a print line or
            // an extra (empty) status information ahead of the final packet
            let r = Replies { table: t.table };
            match ctx.dev(6, "reply-noise") {
                1 => steps.retain(|s| !matches!(s, Step::Packet(_, l) if l == "intermediate")),
                2 => {
                    if let Some(i) = steps.iter().position(|s| matches!(s, Step::Packet(_, l) if l == "intermediate")) {
                        steps.insert(i, r.intermediate(0x0a));
                    }
                }
                3 => {
                    let at = steps.len() - 1;
                    steps.insert(at, r.print_line("RECEIPT LINE"));
                }
                4 => {
                    let at = steps.len() - 1;
                    steps.insert(at, r.status(&[("result_code", vcore::codec::Val::Int(0))], "status-empty"));
                }
                5 => {
                    let at = steps.len() - 1;
                    steps.insert(at, r.print_text_block(&["RECEIPT", "LINE 2"]));
                }
                _ => {}
            }
        }
        if st.lazy && st.p.delay_ms > 0 && matches!(x, Xch::Main | Xch::P1 | Xch::P2 | Xch::P3) {
            let d = std::time::Duration::from_millis(st.p.delay_ms);
            let mut slow = vec![];
            for s in steps {
                if matches!(s, Step::Packet(..)) {
                    slow.push(Step::Delay(d));
                }
                slow.push(s);
            }
            steps = slow;
        }
        if st.lazy && st.p.faults {
            let timeout_ms = if matches!(op, Op::ReadCard) { (base_config().feig_config.read_card_timeout as u64 + 2) * 1000 } else { 60_000 };
            steps = crate::c09::inject(steps, ctx, x, timeout_ms, t.table);
            if steps.iter().any(|s| matches!(s, Step::Note(n) if n.starts_with("fault:") || n.starts_with("serial:"))) {
                st.faulted = true;
            }
        }
        if x == Xch::P3 && st.eod_chosen == Some(Eod::StatusCompletion) {
            // status information ahead of the final completion
            let r = Replies { table: t.table };
            let last = steps.pop().unwrap();
            steps.push(r.status(&[("result_code", vcore::codec::Val::Int(0)), ("amount", vcore::codec::Val::Int(958))], "eod-status"));
            steps.push(last);
        }
        steps
    }
}

pub struct HistOut {
    pub c07: Vec<String>,
    pub c19: Vec<String>,
    /// problems on the connection log (C09's oracle), only filled in when faults are explored
    pub c09: Vec<String>,
    pub trace: Vec<String>,
    /// canonical state reached at the end (client map, connection flag, terminal ledger, dangling)
    pub final_state: u64,
}

/// one history; `first` fixes the first operation (work distribution)
pub fn history(ctx: &mut Ctx, p: &HistParams, first: Option<usize>, acc: &mut Acc) -> HistOut {
    let table: &'static Table = vcore::layout::shipped_static();
    let sh: Sh = Rc::new(RefCell::new(std::mem::replace(ctx, Ctx::new(vec![], vec![], 0))));
    let st = Rc::new(RefCell::new(PolSt { op: Op::Configure, tracker: Tracker::new(), chosen: vec![], eod_chosen: None, reported: None, lazy: false, p: p.clone(), declined_after_status: 0, faulted: false, picked: vec![] }));
    let mut out = HistOut { c07: vec![], c19: vec![], c09: vec![], trace: vec![], final_state: 0 };
    {
        let sim = Sim::new(sh.clone(), Box::new(HistPolicy { st: st.clone() }));
        let mut cfg = base_config();
        cfg.transactions_max_num = p.max;
        match new_feig(&sim, cfg.clone()) {
            Err(e) => {
                out.c07.push(e.clone());
                out.c19.push(e);
            }
            Ok(mut feig) => {
                st.borrow_mut().lazy = true;
                sim.w.borrow_mut().t.dangling = p.dangling;
                let mut model = Model { open: Default::default(), max: p.max };
                let mut closed_once: Vec<String> = vec![];
                let mut any_fault = false;
                let mut held: Vec<String> = vec![];
                for step in 0..p.depth {
                    let oi = match (step, first) {
                        (0, Some(f)) => f,
                        _ => sh.borrow_mut().any(p.ops.len(), "op"),
                    };
                    let op = p.ops[oi].clone();
                    {
                        let mut s = st.borrow_mut();
                        s.op = op.clone();
                        s.tracker.start_op();
                        s.chosen.clear();
                        s.eod_chosen = None;
                        s.reported = None;
                        s.faulted = false;
                        s.picked.clear();
                    }
                    let (r0, e0) = sim.w.borrow().t.traffic_marker();
                    let res = run_op(&sim, &mut feig, &op);
                    acc.count("transitions", 1);
                    let w = sim.w.borrow();
                    // the requests of this call, without those of a reconnect handshake that may precede them
                    let new: Vec<ReqRec> = w.t.reqs[r0..].iter().filter(|r| r.key != "Registration" && r.key != "feig::CVendFunctions").cloned().collect();
                    let (_, e1) = w.t.traffic_marker();
                    let (chosen, eod, reported) = {
                        let s = st.borrow();
                        (s.chosen.clone(), s.eod_chosen.clone(), s.reported)
                    };
                    out.trace.push(format!(
                        "{}: {} -> {} | requests: [{}] | terminal: {}{}",
                        step,
                        op.label(),
                        res.short(),
                        new.iter().map(|r| format!("{} {}", r.key, show_req(table, &r.key, &r.val))).collect::<Vec<_>>().join("; "),
                        chosen.iter().map(|(x, o, i)| format!("{x:?}:{o:?}{}", i.map(|r| format!("(receipt {r})")).unwrap_or_default())).collect::<Vec<_>>().join(" "),
                        match reported {
                            Some(Some(d)) => format!(" (reported dangling pre-authorisation {d})"),
                            Some(None) => " (nothing pending)".into(),
                            None => String::new(),
                        }
                    ));
                    let mut bad07 = |s: String| out.c07.push(format!("step {step} {}: {s}", op.label()));
                    let no_traffic = new.is_empty() && e1 == e0;
                    let mut c19: Vec<String> = vec![];
                    // ---- C19: what must follow an operation the terminal completed
                    let check_cleanup = |new: &[ReqRec], main_completed: bool, open_empty: bool, main_ok: bool, _is_commit: bool| -> (Vec<String>, Vec<&'static str>) {
                        let mut c19: Vec<String> = vec![];
                        let mut wit: Vec<&'static str> = vec![];
                        let rest = &new[1.min(new.len())..];
                        if !open_empty {
                            if new.iter().any(|r| r.key == "EndOfDay") {
                                c19.push("other transactions are still open: end-of-day must not be requested".into());
                            }
                            return (c19, wit);
                        }
                        if !main_completed {
                            return (c19, wit); // an aborted commit/cancel: whether a clean-up follows is not specified
                        }
                        wit.push("w_idle_cleanups");
                        // (request kind, the receipt number it must carry)
                        let mut want: Vec<(&str, Option<u64>)> = vec![("PartialReversal", Some(0xffff))];
                        if let Some(Some(d)) = reported {
                            want.push(("PreAuthReversal", Some(d as u64)));
                            wit.push("w_dangling_reversed");
                        }
                        want.push(("EndOfDay", None));
                        let same = rest.len() == want.len()
                            && rest.iter().zip(&want).all(|(r, (wk, wr))| {
                                r.key == *wk
                                    && match wr {
                                        Some(n) => get_path(table, wk, &r.val, "receipt_no") == Some(vcore::codec::Val::Int(*n)),
                                        None => true,
                                    }
                            });
                        if !same {
                            c19.push(format!(
                                "no transaction is left open: expected the pending query{}, then end-of-day and nothing else, got [{}]",
                                if matches!(reported, Some(Some(_))) { ", the reversal of the reported pre-authorisation" } else { "" },
                                rest.iter().map(|r| format!("{} {}", r.key, show_req(table, &r.key, &r.val))).collect::<Vec<_>>().join("; ")
                            ));
                            return (c19, wit);
                        }
                        match &eod {
                            Some(Eod::Abort(c)) if *c != 0xa0 => {
                                wit.push("w_eod_refused");
                                if !matches!(res.err(), Some((ErrClass::Aborted(x), _)) if x == c) {
                                    c19.push(format!("end-of-day was refused with {c:#x}: the refusal must be reported, got {}", res.short()));
                                }
                            }
                            Some(e) => {
                                if matches!(e, Eod::Abort(_)) {
                                    wit.push("w_eod_not_ready_tolerated");
                                }
                                if main_ok && !res.is_ok() {
                                    c19.push(format!("end-of-day {e:?} is tolerated: the call must succeed, got {}", res.short()));
                                }
                            }
                            None => c19.push("end-of-day never reached the terminal".into()),
                        }
                        (c19, wit)
                    };
                    let faulted_now = st.borrow().faulted;
                    if faulted_now {
                        any_fault = true;
                        acc.count("w_faulted_calls", 1);
                    }
                    if p.faults {
                        crate::c09::held_after_fault(&w.t, &op.label(), &mut held);
                    }
                    if faulted_now {
                        // A transport fault hit this call: the sequence layer re-sends the command on a fresh
                        // connection, so requests may repeat and the call may still succeed. What the
                        // statement fixes regardless: a call the rules refuse causes no traffic (so it cannot
                        // be hit), every (re-)sent request names exactly this token's receipt number, the
                        // token of a commit / cancel is closed, a begin records nothing but a receipt the
                        // terminal issued for it during this call, other tokens are untouched, and
                        // end-of-day is never requested while others are open.
                        let snap_now: Vec<(String, u64)> = feig.verif_snapshot().0.into_iter().map(|(k, v)| (k, v as u64)).collect();
                        match &op {
                            Op::Begin(t) => {
                                if model.open.len() >= model.max || model.open.contains_key(t) {
                                    bad07("a call the rules refuse caused traffic".into());
                                } else {
                                    for q in new.iter() {
                                        let diff = named_fields_differ(table, "Reservation", Some(q), &want_reservation(&cfg, t));
                                        if q.key != "Reservation" || !diff.is_empty() {
                                            bad07(format!("every (re-)sent request of a begin must be the Reservation for the configured amount and currency with the token as reference: {} {}", q.key, diff.join("; ")));
                                        }
                                    }
                                    let issued: Vec<u64> = chosen.iter().filter_map(|(_, _, i)| i.map(|r| r as u64)).collect();
                                    match snap_now.iter().find(|(k, _)| k == t) {
                                        None => {
                                            if res.is_ok() {
                                                bad07("begin reported success but recorded nothing".into());
                                            }
                                        }
                                        Some((_, r)) if issued.contains(r) => {
                                            if !res.is_ok() {
                                                bad07(format!("begin failed ({}) but left the token open", res.short()));
                                            }
                                            model.open.insert(t.clone(), *r);
                                            acc.count("w_begin_survived_fault", 1);
                                        }
                                        Some((_, r)) => bad07(format!("begin recorded receipt {r}, which the terminal did not issue for this reservation (issued: {issued:?})")),
                                    }
                                }
                                if new.iter().any(|r| r.key == "EndOfDay") {
                                    c19.push("begin must not request end-of-day".into());
                                }
                            }
                            Op::Commit(t, _) | Op::Cancel(t) => {
                                if !model.open.contains_key(t) {
                                    bad07("a call the rules refuse caused traffic".into());
                                } else {
                                    let r = model.open.remove(t).unwrap();
                                    closed_once.push(t.clone());
                                    let (key, want) = match &op {
                                        Op::Commit(_, a) => ("PartialReversal", want_partial_reversal(&cfg, t, r, *a)),
                                        _ => ("PreAuthReversal", vec![("receipt_no", vcore::codec::Val::Int(r))]),
                                    };
                                    // the main request and each of its repetitions: up to the first request of the clean-up
                                    let pending = |q: &ReqRec| q.key == "PartialReversal" && get_path(table, "PartialReversal", &q.val, "receipt_no") == Some(vcore::codec::Val::Int(0xffff));
                                    let mains: Vec<&ReqRec> = new.iter().take_while(|q| !pending(q) && q.key != "EndOfDay").collect();
                                    for q in &mains {
                                        let diff = named_fields_differ(table, key, Some(q), &want);
                                        if q.key != key || !diff.is_empty() {
                                            bad07(format!("every (re-)sent request must act on exactly this token's receipt number: {} {}", q.key, diff.join("; ")));
                                        }
                                    }
                                    if !mains.is_empty() {
                                        acc.count("w_request_checked_under_fault", 1);
                                    }
                                    if mains.len() >= 2 {
                                        acc.count("w_request_resent", 1);
                                    }
                                    if !model.open.is_empty() && new.iter().any(|q| q.key == "EndOfDay" || pending(q)) {
                                        c19.push("other transactions are still open: no clean-up and no end-of-day".into());
                                    }
                                    let completed = matches!(chosen.iter().filter(|(x, _, _)| *x == Xch::Main).last(), Some((_, Outcome::Ok, _)));
                                    if model.open.is_empty() && res.is_ok() && completed && !new.iter().any(|q| q.key == "EndOfDay") {
                                        c19.push("the call succeeded and left nothing open, but end-of-day was never requested".into());
                                    }
                                }
                            }
                            Op::ReadCard | Op::Configure => {}
                        }
                    } else {
                    match &op {
                        Op::Begin(t) => {
                            if model.open.len() >= model.max || model.open.contains_key(t) {
                                acc.count("refusals", 1);
                                if model.open.len() >= model.max && model.max > 0 {
                                    acc.count("w_refused_at_max", 1);
                                }
                                if !matches!(res.err(), Some((ErrClass::ActiveTransaction, _))) {
                                    bad07(format!("must be refused with ActiveTransaction (open: {:?}, max {}), got {}", model.open, model.max, res.short()));
                                }
                                if !no_traffic {
                                    bad07("a refused call must not cause any traffic".into());
                                }
                            } else {
                                let diff = named_fields_differ(table, "Reservation", new.first(), &want_reservation(&cfg, t));
                                if new.len() != 1 || !diff.is_empty() {
                                    bad07(format!("expected exactly one Reservation for the configured amount and currency with the token as reference: {}", diff.join("; ")));
                                }
                                match chosen.iter().find(|(x, _, _)| !matches!(x, Xch::H1 | Xch::H2)) {
                                    Some((Xch::Main, Outcome::Ok | Outcome::OkExtraStatus, Some(r))) => {
                                        if !res.is_ok() {
                                            bad07(format!("the terminal issued receipt {r}: begin must succeed and record it, got {}", res.short()));
                                        }
                                        model.open.insert(t.clone(), *r as u64);
                                        if closed_once.contains(t) {
                                            acc.count("w_token_reused", 1);
                                        }
                                        if model.open.len() == 3 {
                                            acc.count("w_three_open", 1);
                                        }
                                        if model.open.len() == 2 {
                                            acc.count("w_two_open", 1);
                                        }
                                    }
                                    Some((Xch::Main, Outcome::Abort(0xfc), _)) => {
                                        if !matches!(res.err(), Some((ErrClass::NeedsPinEntry, _))) {
                                            bad07(format!("abort 0xFC must give NeedsPinEntry, got {}", res.short()));
                                        }
                                    }
                                    Some((Xch::Main, Outcome::Abort(c), _)) => {
                                        if !matches!(res.err(), Some((ErrClass::Aborted(x), _)) if x == c) {
                                            bad07(format!("abort {c:#x} must fail identifying the code, got {}", res.short()));
                                        }
                                    }
                                    Some((Xch::Main, Outcome::NoStatus, _)) => {
                                        if res.err().is_none() {
                                            bad07(format!("completion without a receipt number must fail, got {}", res.short()));
                                        }
                                    }
                                    other => bad07(format!("the reservation never reached the terminal ({other:?})")),
                                }
                            }
                            if new.iter().any(|r| r.key == "EndOfDay") {
                                c19.push("begin must not request end-of-day".into());
                            }
                        }
                        Op::Commit(t, _) | Op::Cancel(t) => {
                            if !model.open.contains_key(t) {
                                acc.count("refusals", 1);
                                if !matches!(res.err(), Some((ErrClass::UnknownToken(x), _)) if x == t) {
                                    bad07(format!("must be refused with UnknownToken({t}), got {}", res.short()));
                                }
                                if !no_traffic {
                                    bad07("a refused call must not cause any traffic".into());
                                }
                            } else {
                                let oldest = model.open.iter().min_by_key(|(_, r)| **r).map(|(k, _)| k.clone());
                                if model.open.len() >= 2 && oldest.as_ref() == Some(t) {
                                    acc.count("w_older_of_two", 1);
                                }
                                let r = model.open.remove(t).unwrap();
                                closed_once.push(t.clone());
                                let is_commit = matches!(op, Op::Commit(..));
                                let (key, want) = match &op {
                                    Op::Commit(_, a) => ("PartialReversal", want_partial_reversal(&cfg, t, r, *a)),
                                    _ => ("PreAuthReversal", vec![("receipt_no", vcore::codec::Val::Int(r))]),
                                };
                                let diff = named_fields_differ(table, key, new.first(), &want);
                                if !diff.is_empty() {
                                    bad07(format!("must act on exactly this token's receipt number: {}", diff.join("; ")));
                                }
                                match chosen.iter().find(|(x, _, _)| !matches!(x, Xch::H1 | Xch::H2)) {
                                    Some((Xch::Main, o @ (Outcome::Ok | Outcome::NoStatus), _)) => {
                                        let main_ok = *o == Outcome::Ok || !is_commit;
                                        let (pr, wi) = check_cleanup(&new, true, model.open.is_empty(), main_ok, is_commit);
                                        c19.extend(pr);
                                        for x in wi {
                                            acc.count(x, 1);
                                        }
                                        if !model.open.is_empty() {
                                            acc.count("w_closed_while_others_open", 1);
                                            if new.len() != 1 {
                                                bad07(format!("other transactions are open: no further requests expected, got {}", new.len() - 1));
                                            }
                                            if main_ok && !res.is_ok() {
                                                bad07(format!("the terminal completed the exchange: expected success, got {}", res.short()));
                                            }
                                        }
                                    }
                                    Some((Xch::Main, Outcome::Abort(c), _)) => {
                                        if !matches!(res.err(), Some((ErrClass::Aborted(x), _)) if x == c) {
                                            bad07(format!("abort {c:#x} must fail identifying the code, got {}", res.short()));
                                        }
                                        let (pr, _) = check_cleanup(&new, false, model.open.is_empty(), false, is_commit);
                                        c19.extend(pr);
                                        for q in &new[1.min(new.len())..] {
                                            if !["PartialReversal", "EndOfDay", "PreAuthReversal"].contains(&q.key.as_str()) {
                                                bad07(format!("unexpected request {} after the abort", q.key));
                                            }
                                        }
                                    }
                                    other => {
                                        bad07(format!("the request never reached the terminal ({other:?})"));
                                        // whatever the client sent instead: a call that reports success and leaves
                                        // nothing open must have run the clean-up
                                        if res.is_ok() {
                                            let (pr, _) = check_cleanup(&new, true, model.open.is_empty(), true, is_commit);
                                            c19.extend(pr);
                                        }
                                    }
                                }
                            }
                        }
                        Op::ReadCard => {
                            if new.len() != 1 || new[0].key != "ReadCard" {
                                bad07(format!("expected exactly one ReadCard request, got [{}]", new.iter().map(|r| r.key.clone()).collect::<Vec<_>>().join(", ")));
                            }
                        }
                        Op::Configure => {}
                    }
                    }
                    drop(w);
                    for s in c19 {
                        out.c19.push(format!("step {step} {}: {s}", op.label()));
                    }
                    // the client's map equals the model's
                    let snap: Vec<(String, u64)> = feig.verif_snapshot().0.into_iter().map(|(k, v)| (k, v as u64)).collect();
                    let want: Vec<(String, u64)> = model.open.iter().map(|(k, v)| (k.clone(), *v)).collect();
                    if snap != want {
                        out.c07.push(format!("step {step} {}: the client's open transactions {snap:?} differ from the model's {want:?}", op.label()));
                    }
                    if !any_fault && sim.w.borrow().t.conns.len() != 1 {
                        out.c07.push(format!("step {step} {}: the client reconnected although no exchange failed", op.label()));
                    }
                    out.final_state = h64(&(p.max, &snap, feig.verif_snapshot().1, &sim.w.borrow().t.ledger, sim.w.borrow().t.dangling));
                    acc.set("states", out.final_state);
                    if (!p.focus19 && !out.c07.is_empty()) || (p.focus19 && !out.c19.is_empty()) {
                        break;
                    }
                }
                drop(feig);
                if p.faults {
                    out.c09 = crate::c09::verify(&sim.w.borrow().t, &cfg);
                    out.c09.extend(held);
                    if any_fault {
                        acc.count("w_history_with_fault", 1);
                    }
                }
            }
        }
        drop(sim);
    }
    if st.borrow().declined_after_status > 0 {
        acc.count("w_declined_after_status", 1);
    }
    *ctx = Rc::try_unwrap(sh).ok().expect("context still shared").into_inner();
    out
}


/// State-deduplicated breadth-first search: from every distinct state reached so far (a
/// representative history is replayed to get there) every operation with every terminal outcome is
/// executed once; new states join the frontier. Sound as long as the state (client map, connection
/// flag, terminal ledger, dangling pre-authorisation) determines the future, which holds for the
/// real client (no other mutable state); the exhaustive histories of bounded depth do not rely on
/// this assumption. Returns (levels completed, states, transitions, fixpoint reached).
pub fn bfs(p: &HistParams, max_depth: usize, key: &str, pick: fn(&HistOut) -> &Vec<String>, acc: &mut Acc) -> (usize, usize, u64, bool) {
    use std::collections::HashSet;
    let mut seen: HashSet<u64> = HashSet::new();
    let mut frontier: Vec<Vec<u32>> = vec![vec![]];
    let mut transitions = 0u64;
    let mut levels = 0;
    let mut fix = false;
    for depth in 1..=max_depth {
        let results: std::sync::Mutex<Vec<(Vec<u32>, u64)>> = std::sync::Mutex::new(vec![]);
        let pp = HistParams { depth, ..p.clone() };
        let part = par_for(frontier.len(), |ix, acc| {
            let start = &frontier[ix];
            let mut local: Vec<(Vec<u32>, u64)> = vec![];
            vcore::dbx::explore_from(start, 0, 10_000_000, |ctx| {
                let o = history(ctx, &pp, None, acc);
                acc.count("executions", 1);
                acc.count("bfs_transitions", 1);
                let problems = pick(&o);
                let choices = ctx.choices();
                if !problems.is_empty() {
                    acc.violation(crate::util::viol(
                        format!("{key}/bfs/depth={depth}/choices={choices:?}"),
                        format!("state-deduplicated search, depth {depth}\nhistory:\n  {}\nviolations:\n  {}", o.trace.join("\n  "), problems.join("\n  ")),
                        depth as u64,
                    ));
                } else {
                    local.push((choices, o.final_state));
                }
            });
            results.lock().unwrap().extend(local);
        });
        acc.merge(part);
        let mut all = results.into_inner().unwrap();
        all.sort();
        transitions += all.len() as u64;
        let mut next = vec![];
        for (choices, state) in all {
            if seen.insert(state) {
                next.push(choices);
            }
        }
        levels = depth;
        if next.is_empty() {
            fix = true;
            break;
        }
        frontier = next;
    }
    (levels, seen.len(), transitions, fix)
}
