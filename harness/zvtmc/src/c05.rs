//! C05 - command sequences acknowledge every packet once and stop at the final packet.
use crate::seqs::*;
use crate::sim::*;
use crate::util::*;
use serde_json::json;
use std::cell::RefCell;
use std::rc::Rc;
use vcore::dbx::{self, Ctx};
use vcore::layout::*;
use vcore::report::*;

/// What the client owes the terminal for one packet.
#[derive(Clone, Debug)]
pub enum Answer {
    /// the acknowledgement 80 00 00
    Ack,
    /// a data block: WriteData carrying this file id, this offset and exactly these bytes
    Data { id: u8, offset: u32, payload: Vec<u8> },
}

impl Answer {
    pub fn describe(&self) -> String {
        match self {
            Answer::Ack => "acknowledgement 800000".into(),
            Answer::Data { id, offset, payload } => format!("data block (file {id:#04x}, offset {offset}, {} bytes {})", payload.len(), hex_short(payload)),
        }
    }
    /// does the written packet satisfy the obligation?
    pub fn satisfied_by(&self, w: &[u8]) -> bool {
        match self {
            Answer::Ack => w == [0x80, 0x00, 0x00],
            Answer::Data { id, offset, payload } => {
                let table = vcore::layout::shipped_static();
                let codec = vcore::codec::Codec::new(table);
                let ty = table.get("feig::WriteData");
                match codec.decode(ty, w) {
                    Ok((v, used)) if used == w.len() => {
                        let some = Some(v);
                        let g = |p: &str| crate::client::get_path(table, "feig::WriteData", &some, p);
                        let pl = match g("tlv.file.payload") {
                            Some(vcore::codec::Val::Bytes(b)) => b,
                            Some(vcore::codec::Val::None) => vec![],
                            _ => return false,
                        };
                        g("tlv.file.file_id") == Some(vcore::codec::Val::Int(*id as u64)) && g("tlv.file.file_offset") == Some(vcore::codec::Val::Int(*offset as u64)) && pl == *payload
                    }
                    _ => false,
                }
            }
        }
    }
}

pub struct Exchange<'a> {
    pub cmd: &'a [u8],
    /// (packet bytes, expected Debug of the yielded item, answer owed)
    pub script: Vec<(&'a [u8], String, Answer)>,
    pub trailer: &'a [u8],
    pub dropped: bool,
}

/// Checks the ordered event log of one well-formed exchange against the statement.
pub fn verify(ex: &Exchange, events: &[Ev], log: &RunLog) -> Vec<String> {
    let mut problems = vec![];
    if let Some(p) = &log.panic {
        problems.push(format!("the sequence panicked: {p}"));
        return problems;
    }
    let mut it = events.iter().peekable();
    // 1. the command, once
    match it.next() {
        Some(Ev::Write(w)) if w == ex.cmd => {}
        other => {
            problems.push(format!("first event must be one write of the command {}, got {:?}", hex_short(ex.cmd), short_ev(other)));
            return problems;
        }
    }
    let mut pos = 0usize;
    let mut read_until = |target: usize, what: &str, it: &mut std::iter::Peekable<std::slice::Iter<Ev>>, problems: &mut Vec<String>| -> bool {
        while pos < target {
            match it.peek() {
                Some(Ev::Read(_, p)) => {
                    if *p > target {
                        problems.push(format!("a read went beyond {what}: consumed up to byte {p}, {what} ends at byte {target}"));
                        return false;
                    }
                    pos = *p;
                    it.next();
                }
                other => {
                    problems.push(format!("expected reads up to the end of {what} (byte {target}, at {pos}), got {:?}", short_ev(other.copied())));
                    return false;
                }
            }
        }
        true
    };
    // 2. the acknowledgement of the terminal
    if !read_until(3, "the acknowledgement", &mut it, &mut problems) {
        return problems;
    }
    // 3. every packet: read exactly, answered exactly once, then yielded
    let mut end = 3;
    for (k, (bytes, debug, answer)) in ex.script.iter().enumerate() {
        end += bytes.len();
        if !read_until(end, &format!("packet {k}"), &mut it, &mut problems) {
            return problems;
        }
        match it.next() {
            Some(Ev::Write(w)) if answer.satisfied_by(w) => {}
            other => {
                problems.push(format!("packet {k} must be answered by exactly one {} before it is yielded and before anything else is read, got {:?}", answer.describe(), short_ev(other)));
                return problems;
            }
        }
        match it.next() {
            Some(Ev::Mark(m)) if m.strip_prefix("item ") == Some(debug.as_str()) => {}
            other => {
                problems.push(format!("after answering packet {k} the item {} must be yielded, got {:?}", debug.chars().take(80).collect::<String>(), short_ev(other)));
                return problems;
            }
        }
    }
    // 4. the end
    let want = if ex.dropped { "dropped" } else { "end" };
    match it.next() {
        Some(Ev::Mark(m)) if m == want => {}
        other => problems.push(format!("after the final packet the stream must end without further traffic, got {:?}", short_ev(other))),
    }
    if let Some(e) = it.next() {
        problems.push(format!("traffic after the end of the exchange: {:?}", short_ev(Some(e))));
    }
    if !ex.dropped && (!log.ended || log.polls_after_end_not_none > 0) {
        problems.push(format!("the stream did not stay ended (ended={}, later polls not None: {})", log.ended, log.polls_after_end_not_none));
    }
    if log.items.len() != ex.script.len() {
        problems.push(format!("{} items yielded for {} packets", log.items.len(), ex.script.len()));
    }
    problems
}

fn short_ev(e: Option<&Ev>) -> String {
    match e {
        None => "nothing".into(),
        Some(Ev::Write(w)) => format!("Write({})", hex_short(w)),
        Some(Ev::Mark(m)) => format!("Mark({})", m.chars().take(90).collect::<String>()),
        Some(other) => format!("{other:?}"),
    }
}

pub fn render_events(events: &[Ev]) -> String {
    events.iter().map(|e| format!("  {}", short_ev(Some(e)))).collect::<Vec<_>>().join("\n")
}

fn trailers(script_len: usize) -> Vec<(String, Vec<u8>)> {
    let mut t: Vec<(String, Vec<u8>)> = vec![("none".into(), vec![])];
    let bytes: Vec<u8> = if script_len <= 1 { (0..=255u8).collect() } else { vec![0x00, 0x06, 0x80, 0xff] };
    for b in bytes {
        t.push((format!("byte-{b:02x}"), vec![b]));
    }
    t.push(("abort-packet".into(), vec![0x06, 0x1e, 0x01, 0x6c]));
    t.push(("status-packet".into(), vec![0x04, 0xff, 0x01, 0x17]));
    t.push(("second-exchange".into(), vec![0x80, 0x00, 0x00, 0x06, 0x0f, 0x00]));
    t
}

fn words(nf: usize, max: usize) -> Vec<Vec<usize>> {
    let mut out: Vec<Vec<usize>> = vec![vec![]];
    let mut cur: Vec<Vec<usize>> = vec![vec![]];
    for _ in 0..max {
        let mut next = vec![];
        for w in &cur {
            for l in 0..nf {
                let mut x = w.clone();
                x.push(l);
                next.push(x);
            }
        }
        out.extend(next.clone());
        cur = next;
        if nf == 0 {
            break;
        }
    }
    out
}

pub fn run(run: &RunInfo) -> Summary {
    let table = shipped();
    let defs = sequences();
    let depth = if run.thorough() { 5 } else { 3 };
    let silencer = crate::wf::silence_stdout();
    // work items: (sequence, first non-final letter or none)
    let mut work: Vec<(usize, Option<usize>)> = vec![];
    for (di, d) in defs.iter().enumerate() {
        let ls = letters(&table, d);
        let nf = ls.iter().filter(|l| !l.is_final).count();
        work.push((di, None));
        for f in 0..nf {
            work.push((di, Some(f)));
        }
    }
    let mut acc = par_for(work.len(), |ix, acc| {
        let (di, first) = work[ix];
        let def = &defs[di];
        if skip_for_replay(run, &format!("c05/{}/", def.name)) {
            return;
        }
        let ls = letters(&table, def);
        let nfl: Vec<&Letter> = ls.iter().filter(|l| !l.is_final).collect();
        let fl: Vec<&Letter> = ls.iter().filter(|l| l.is_final).collect();
        let cmds = command_values(&table, def);
        let finals: Vec<&str> = fl.iter().map(|l| l.variant).collect();
        let is_final = |v: &str| finals.contains(&v);
        let ws: Vec<Vec<usize>> = match first {
            None => vec![vec![]],
            Some(f) => words(nfl.len(), depth - 1).into_iter().map(|mut w| { w.insert(0, f); w }).collect(),
        };
        for (ci, w) in (0..cmds.len()).flat_map(|ci| ws.iter().map(move |w| (ci, w.clone()))) {
            // the further inputs of the sequence run with scripts of at most two non-final packets
            if ci > 0 && w.len() > 2 {
                continue;
            }
            let (cmd_v, cmd_bytes) = (&cmds[ci].0, &cmds[ci].1);
            if ci > 0 {
                acc.count("w_other_inputs", 1);
            }
            for f in &fl {
                let mut script: Vec<&Letter> = w.iter().map(|i| nfl[*i]).collect();
                script.push(f);
                let name: String = script.iter().map(|l| l.label.as_str()).collect::<Vec<_>>().join(",");
                for (tname, trailer) in trailers(script.len()) {
                    for dropped in [false, true] {
                        let budget = if script.len() <= 2 && (tname == "none" || tname == "abort-packet") { 1 } else { 0 };
                        let mut incoming = ACK.to_vec();
                        for l in &script {
                            incoming.extend(&l.bytes);
                        }
                        let total = incoming.len();
                        incoming.extend(&trailer);
                        let st = dbx::explore(budget, 1_000_000, |ctx| {
                            let sh: Sh = Rc::new(RefCell::new(std::mem::replace(ctx, Ctx::new(vec![], vec![], 0))));
                            let s = Scripted::new(sh.clone(), incoming.clone(), if budget == 0 { Chunking::Greedy } else { Chunking::Deviations });
                            let stop: Option<&dyn Fn(&str) -> bool> = if dropped { Some(&is_final) } else { None };
                            let log = (def.run)(cmd_v, &s, stop);
                            let events = s.st.borrow().log.clone();
                            let consumed = s.consumed();
                            drop(s);
                            *ctx = Rc::try_unwrap(sh).ok().expect("context still shared").into_inner();
                            acc.count("executions", 1);
                            let ex = Exchange { cmd: cmd_bytes, script: script.iter().map(|l| (&l.bytes[..], l.debug.clone(), Answer::Ack)).collect(), trailer: &trailer, dropped };
                            let mut problems = verify(&ex, &events, &log);
                            if problems.is_empty() && consumed != total {
                                problems.push(format!("the sequence consumed {consumed} bytes, the exchange ends at byte {total} (trailer of {} bytes must stay in the connection)", trailer.len()));
                            }
                            acc.set("outcomes", h64(&(def.name, ci, &name, &tname, dropped, problems.is_empty())));
                            if problems.is_empty() {
                                if script.len() >= 2 {
                                    acc.count("w_nonfinal", 1);
                                }
                                if dropped {
                                    acc.count("w_dropped", 1);
                                }
                                if !trailer.is_empty() {
                                    acc.count("w_trailer", 1);
                                }
                            }
                            if !problems.is_empty() {
                                let choices = ctx.choices();
                                let key = format!("c05/{}{}/script={name}/trailer={tname}/dropped={dropped}/choices={choices:?}", def.name, if ci > 0 { format!("/input={}", hex_short(cmd_bytes)) } else { String::new() });
                                acc.violation(viol(
                                    key,
                                    format!(
                                        "sequence {} command {}\nscript: {name}\ntrailer: {tname} ({}), caller {}\n{}\nevent log:\n{}",
                                        def.name,
                                        hex_short(cmd_bytes),
                                        hex_short(&trailer),
                                        if dropped { "stops after the final packet" } else { "drains the stream" },
                                        problems.join("\n"),
                                        render_events(&events)
                                    ),
                                    (script.len() * 10 + ctx.deviations as usize) as u64,
                                ));
                            }
                        });
                        acc.count("transitions", st.transitions.max(1));
                    }
                }
            }
        }
    });
    // the firmware upload sequence (answers with data blocks)
    if !skip_for_replay(run, "c05/WriteFile/") && !skip_for_replay(run, "c11/") {
        let a = crate::wf::c05_part(run);
        acc.merge(a);
    }
    drop(silencer);
    for (c, w) in [("w_nonfinal", "non-final packets were followed by further packets"), ("w_dropped", "caller stopped right after the final packet"), ("w_trailer", "bytes queued behind the final packet stayed in the connection")] {
        if acc.get(c) > 0 {
            acc.witness(w);
        }
    }
    acc.sample(json!({"sequence": "ReadCard", "script": "IntermediateStatusInformation:min,StatusInformation:full0", "trailer": "byte-06", "caller": "stops after the final packet"}));
    acc.sample(json!({"sequence": "EndOfDay", "script": "PrintLine:min,PrintTextBlock:full0,Abort:min", "trailer": "second-exchange"}));
    let execs = acc.get("executions");
    acc.count("evaluations", execs);
    Summary {
        states: acc.set_len("outcomes"),
        transitions: acc.get("transitions"),
        traces_validated: execs,
        distinct_nontrivial: acc.set_len("outcomes"),
        rule: format!("17 sequences + feig WriteFile x all reply scripts of <= {} non-final letters (each reply variant with a minimal and a fully populated body) followed by each final letter x trailers (none, single bytes (all 256 for scripts of one packet), a further packet, a second exchange) x caller (drains / stops at the final packet); scripts of <= 2 packets additionally with every single read deviation. Oracle on the ordered I/O log: command written once, acknowledgement read, every packet read exactly, answered exactly once before it is yielded and before anything else is read, items in order, stream ends, nothing consumed beyond the final packet. distinct_nontrivial = distinct (sequence, script, trailer, caller) cases", depth - 1),
        exhaustive: true,
        required_witnesses: vec![
            "non-final packets were followed by further packets".into(),
            "caller stopped right after the final packet".into(),
            "bytes queued behind the final packet stayed in the connection".into(),
            "data requests answered with the data block".into(),
        ],
        assumptions: vec!["reply and finality table of DESIGN.md Appendix B".into(), "scripts longer than the bound are not explored".into()],
        bounds: json!({"script_length": depth, "read_deviations_for_short_scripts": 1}),
        caps_hit: vec![],
        evaluations_counter: "evaluations".into(),
        acc,
    }
}
