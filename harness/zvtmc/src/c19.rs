//! C19 - going idle triggers clean-up; end-of-day never runs over open transactions.
use crate::c07::ops;
use crate::hist::*;
use crate::simterm::Outcome;
use crate::util::*;
use serde_json::json;
use vcore::dbx;
use vcore::report::*;

pub fn run(run: &RunInfo) -> Summary {
    let depth = if run.thorough() { 5 } else { 4 };
    let all_ops = ops(&["A", "B"]);
    // (max, dangling, first op, code sweep?)
    let mut work: Vec<(usize, Option<u32>, usize, bool, bool, u64)> = vec![];
    for max in 1..=2usize {
        for dangling in [None, Some(7u32)] {
            for first in 0..all_ops.len() {
                work.push((max, dangling, first, false, false, 0));
                // slow terminal: every reply packet takes 45 s / 59 s (inside the 60 s per-packet time-out)
                if max == 1 {
                    work.push((max, dangling, first, false, false, 45_000));
                    work.push((max, dangling, first, false, false, 59_000));
                }
                // noisy pass: one deviation of the reply shape per history, at depth - 1
                work.push((max, dangling, first, false, true, 0));
            }
        }
    }
    // every end-of-day abort code for the shortest histories that go idle
    for dangling in [None, Some(7u32)] {
        work.push((1, dangling, 0, true, false, 0));
    }
    let mut acc = par_for(work.len(), |ix, acc| {
        let (max, dangling, first, sweep, noisy, slow) = work[ix];
        if skip_for_replay(run, &format!("c19/max={max}/dangling={dangling:?}/first={first}/sweep={sweep}/noisy={noisy}/slow={slow}/")) {
            return;
        }
        let p = if sweep {
            HistParams {
                max,
                depth: 2,
                ops: vec![crate::client::Op::Begin("A".into()), crate::client::Op::Commit("A".into(), 0), crate::client::Op::Cancel("A".into())],
                dangling,
                reservation_menu: vec![Outcome::Ok],
                commit_menu: vec![Outcome::Ok],
                cancel_menu: vec![Outcome::Ok],
                eod_menu: (0..=255u8).map(Eod::Abort).collect(),
                noise: false,
                delay_ms: 0,
                focus19: true,
                rearm_dangling: false,
            faults: false,
            }
        } else {
            HistParams {
                max,
                depth: if noisy || slow > 0 { depth - 1 } else { depth },
                ops: all_ops.clone(),
                dangling,
                reservation_menu: vec![Outcome::Ok, Outcome::Abort(0x6c), Outcome::StatusThenAbort(0x6c)],
                commit_menu: vec![Outcome::Ok, Outcome::NoStatus, Outcome::Abort(0x6c)],
                cancel_menu: vec![Outcome::Ok, Outcome::Abort(0xb4)],
                eod_menu: vec![Eod::Completion, Eod::StatusCompletion, Eod::Abort(0xa0), Eod::Abort(0x6c), Eod::Abort(0xff)],
                noise: noisy,
                delay_ms: slow,
                focus19: true,
                rearm_dangling: false,
            faults: false,
            }
        };
        let st = dbx::explore(if noisy { 1 } else { 0 }, 200_000_000, |ctx| {
            let o = history(ctx, &p, Some(first), acc);
            acc.count("executions", 1);
            if !o.c19.is_empty() {
                let choices = ctx.choices();
                acc.violation(viol(
                    format!("c19/max={max}/dangling={dangling:?}/first={first}/sweep={sweep}/noisy={noisy}/slow={slow}/choices={choices:?}"),
                    format!("transactions_max_num = {max}, dangling pre-authorisation at the terminal: {dangling:?}\nhistory:\n  {}\nviolations:\n  {}", o.trace.join("\n  "), o.c19.join("\n  ")),
                    o.trace.len() as u64,
                ));
            }
        });
        acc.max("max_depth", st.max_depth);
        if st.capped {
            acc.count("capped", 1);
        }
    });
    // two tokens that share their first 8 / 16 / 32 / 64 characters (open at the same time they must
    // stay two transactions: closing one is not going idle), and histories with one transport fault
    {
        let mut passes: Vec<(String, Vec<crate::client::Op>, bool, usize, Option<u32>)> = vec![];
        for k in [8usize, 16, 32, 64] {
            let pre: String = (0..k).map(|i| (b'a' + (i % 26) as u8) as char).collect();
            let (ta, tb) = (format!("{pre}1"), format!("{pre}2"));
            for dangling in [None, Some(7u32)] {
                passes.push((format!("shared-prefix={k}/dangling={dangling:?}"), ops(&[ta.as_str(), tb.as_str()]), false, depth - 1, dangling));
            }
        }
        for dangling in [None, Some(7u32)] {
            for first in 0..all_ops.len() {
                passes.push((format!("faults/dangling={dangling:?}/first={first}"), all_ops.clone(), true, depth - 1, dangling));
            }
        }
        let part = par_for(passes.len(), |ix, acc| {
            let (name, p_ops, faults, d, dangling) = &passes[ix];
            if skip_for_replay(run, &format!("c19/{name}/")) {
                return;
            }
            let p = HistParams {
                max: 2,
                depth: *d,
                ops: p_ops.clone(),
                dangling: *dangling,
                reservation_menu: vec![Outcome::Ok],
                commit_menu: vec![Outcome::Ok, Outcome::Abort(0x6c)],
                cancel_menu: vec![Outcome::Ok],
                eod_menu: vec![Eod::Completion, Eod::Abort(0xa0)],
                noise: false,
                delay_ms: 0,
                focus19: true,
                rearm_dangling: false,
                faults: *faults,
            };
            let first: Option<usize> = if *faults { name.rsplit("first=").next().and_then(|x| x.parse().ok()) } else { None };
            dbx::explore(if *faults { 1 } else { 0 }, 200_000_000, |ctx| {
                let o = history(ctx, &p, first, acc);
                acc.count("executions", 1);
                acc.count(if *faults { "w_fault_histories" } else { "w_long_token_histories" }, 1);
                if !o.c19.is_empty() {
                    let choices = ctx.choices();
                    acc.violation(viol(
                        format!("c19/{name}/choices={choices:?}"),
                        format!("transactions_max_num = 2, {name}\nhistory:\n  {}\nviolations:\n  {}", o.trace.join("\n  "), o.c19.join("\n  ")),
                        o.trace.len() as u64,
                    ));
                }
            });
        });
        acc.merge(part);
    }
    // the same dangling receipt number turns up again after every end-of-day (the terminal's counter
    // restarted): every clean-up has to reverse it again
    if !skip_for_replay(run, "c19/rearm/") {
        let firsts = all_ops.len();
        let a = par_for(firsts * 2, |ix, acc| {
            let (first, max) = (ix % firsts, 1 + ix / firsts);
            let p = HistParams {
                max,
                depth,
                ops: all_ops.clone(),
                dangling: Some(7),
                reservation_menu: vec![Outcome::Ok],
                commit_menu: vec![Outcome::Ok, Outcome::Abort(0x6c)],
                cancel_menu: vec![Outcome::Ok],
                eod_menu: vec![Eod::Completion],
                noise: false,
                delay_ms: 0,
                focus19: true,
                rearm_dangling: true,
            faults: false,
            };
            dbx::explore(0, 50_000_000, |ctx| {
                let o = history(ctx, &p, Some(first), acc);
                acc.count("executions", 1);
                acc.count("rearm_histories", 1);
                if !o.c19.is_empty() {
                    let choices = ctx.choices();
                    acc.violation(viol(
                        format!("c19/rearm/max={max}/first={first}/choices={choices:?}"),
                        format!("transactions_max_num = {max}; the terminal holds the dangling pre-authorisation 7 again after every end-of-day\nhistory:\n  {}\nviolations:\n  {}", o.trace.join("\n  "), o.c19.join("\n  ")),
                        o.trace.len() as u64,
                    ));
                }
            });
        });
        acc.merge(a);
    }
    // every receipt number 0..=9999 as the dangling pre-authorisation the terminal reports, on the
    // shortest histories that go idle
    if !skip_for_replay(run, "c19/dangling-sweep/") {
        let a = par_for(100, |chunk, acc| {
            for d in (chunk as u32 * 100)..(chunk as u32 * 100 + 100) {
                let p = HistParams {
                    max: 1,
                    depth: 2,
                    ops: vec![crate::client::Op::Begin("A".into()), crate::client::Op::Commit("A".into(), 0), crate::client::Op::Cancel("A".into())],
                    dangling: Some(d),
                    reservation_menu: vec![Outcome::Ok],
                    commit_menu: vec![Outcome::Ok],
                    cancel_menu: vec![Outcome::Ok],
                    eod_menu: vec![Eod::Completion],
                    noise: false,
                    delay_ms: 0,
                    focus19: true,
                    rearm_dangling: false,
            faults: false,
                };
                dbx::explore(0, 1_000_000, |ctx| {
                    let o = history(ctx, &p, Some(0), acc);
                    acc.count("executions", 1);
                    acc.count("dangling_sweep", 1);
                    if !o.c19.is_empty() {
                        let choices = ctx.choices();
                        acc.violation(viol(
                            format!("c19/dangling-sweep/receipt={d}/choices={choices:?}"),
                            format!("transactions_max_num = 1, dangling pre-authorisation at the terminal: receipt {d}\nhistory:\n  {}\nviolations:\n  {}", o.trace.join("\n  "), o.c19.join("\n  ")),
                            o.trace.len() as u64,
                        ));
                    }
                });
            }
        });
        acc.merge(a);
    }
    if run.replay_only.is_none() || run.replay_only.as_ref().map(|r| r["key"].as_str().unwrap_or("").contains("/bfs/")).unwrap_or(false) {
        for max in 1..=2usize {
            for dangling in [None, Some(7u32)] {
                let p = HistParams {
                    max,
                    depth: 0,
                    ops: all_ops.clone(),
                    dangling,
                    reservation_menu: vec![Outcome::Ok, Outcome::Abort(0x6c), Outcome::StatusThenAbort(0x6c)],
                    commit_menu: vec![Outcome::Ok, Outcome::NoStatus, Outcome::Abort(0x6c)],
                    cancel_menu: vec![Outcome::Ok, Outcome::Abort(0xb4)],
                    eod_menu: vec![Eod::Completion, Eod::StatusCompletion, Eod::Abort(0xa0), Eod::Abort(0x6c), Eod::Abort(0xff)],
                    noise: false,
                    delay_ms: 0,
                    focus19: true,
                    rearm_dangling: false,
            faults: false,
                };
                let (levels, states, transitions, fix) = bfs(&p, 12, &format!("c19/max={max}/dangling={dangling:?}"), |o| &o.c19, &mut acc);
                acc.count("bfs_states", states as u64);
                acc.count("bfs_state_transitions", transitions);
                acc.max("bfs_levels", levels as u64);
                if fix {
                    acc.count("w_bfs_fixpoint", 1);
                }
            }
        }
    }
    for (c, w) in [
        ("w_bfs_fixpoint", "the state-deduplicated search reached its fixed point"),
        ("w_idle_cleanups", "a completed commit/cancel left no transaction open"),
        ("w_dangling_reversed", "the terminal reported a dangling pre-authorisation"),
        ("w_eod_refused", "end-of-day was refused with another code than 'receiver not ready'"),
        ("w_eod_not_ready_tolerated", "end-of-day was refused with 'receiver not ready'"),
        ("w_closed_while_others_open", "a transaction was closed while another one stayed open"),
    ] {
        if acc.get(c) > 0 {
            acc.witness(w);
        }
    }
    acc.sample(json!({"max": 2, "dangling": 7, "history": ["begin(A)", "begin(B)", "cancel(A) -> no end-of-day", "commit(B,0) -> PartialReversal{FFFF}, PreAuthReversal{7}, EndOfDay"]}));
    let execs = acc.get("executions");
    acc.count("evaluations", execs);
    let caps = if acc.get("capped") > 0 { vec!["execution cap hit".to_string()] } else { vec![] };
    Summary {
        states: acc.set_len("states"),
        transitions: acc.get("transitions"),
        traces_validated: execs,
        distinct_nontrivial: acc.get("w_idle_cleanups") + acc.get("w_closed_while_others_open"),
        rule: format!("real Feig client against the simulated terminal: transactions_max_num 1..=2 x terminal ledger {{no dangling pre-authorisation, one}} x all histories of depth {depth} over begin/commit/cancel x tokens {{A,B}} + read_card, terminal outcomes chosen lazily (reservation: success / abort / status information naming a receipt number followed by an abort; commit: completion with status, completion without status, abort; cancel: completion/abort; end-of-day: completion, status+completion, abort A0, 6C, FF); a second pass at depth - 1 with every single deviation of the reply shape of any exchange (no / two intermediate statuses, a print line, an extra status information); a pass at depth - 1 against a slow terminal whose every reply packet takes 45 s resp. 59 s (inside the per-packet time-out); a state-deduplicated breadth-first search from every reachable state until no new state appears; a pass in which the same dangling receipt number is pending again after every end-of-day; histories of depth - 1 with two tokens that share their first 8 / 16 / 32 / 64 characters; histories of depth - 1 with one transport fault (the fault menu of C09) at any packet the terminal sends: no clean-up and no end-of-day while another transaction is open, and a call that succeeds after the terminal completed it and leaves nothing open has requested end-of-day; plus every dangling receipt number 0..=9999 and all 256 end-of-day abort codes on the histories begin;commit and begin;cancel with and without a dangling pre-authorisation. Temporal oracle on the terminal's request log. distinct_nontrivial = steps at which the clean-up rule or the no-end-of-day rule applied"),
        exhaustive: true,
        required_witnesses: vec![
            "the state-deduplicated search reached its fixed point".into(),
            "a completed commit/cancel left no transaction open".into(),
            "the terminal reported a dangling pre-authorisation".into(),
            "end-of-day was refused with another code than 'receiver not ready'".into(),
            "end-of-day was refused with 'receiver not ready'".into(),
            "a transaction was closed while another one stayed open".into(),
        ],
        assumptions: vec![
            "after an aborted commit/cancel neither presence nor absence of a clean-up is demanded".into(),
            "a refused pending query or dangling reversal (no end-of-day follows) is covered by C20".into(),
        ],
        bounds: json!({"depth": depth, "tokens": 2}),
        caps_hit: caps,
        evaluations_counter: "evaluations".into(),
        acc,
    }
}
