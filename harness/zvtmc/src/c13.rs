//! C13 - tagged fields: any order accepted, duplicates and missing fields reported, a foreign
//! tag never disturbs fields already decoded.
use crate::real::*;
use crate::util::*;
use serde_json::json;
use vcore::codec::*;
use vcore::layout::*;
use vcore::report::*;
use vcore::tree::*;
use vcore::values::*;
use zvt_builder::{Tag, ZVTError};

/// values in which exactly the tagged top-level fields of `subset` are present
fn presence_value(table: &Table, ty: &TypeDef, subset: &[usize], pick: usize) -> Val {
    let mut v = baseline(table, ty);
    for &i in subset {
        let f = &ty.fields[i];
        let inner = |k: usize| -> Val {
            match &f.enc {
                Enc::Nested(n) => all_present(table, table.get(n), pick + k, 1),
                _ => {
                    let a = alphabet(table, f, 0);
                    a[(pick + 1 + k) % a.len()].clone()
                }
            }
        };
        v.fields_mut()[i] = match f.wrap {
            Wrap::Bare => inner(0),
            Wrap::Opt => Val::some(inner(0)),
            Wrap::Vec => Val::List(vec![inner(0), inner(1)]),
        };
    }
    v
}

fn subsets(items: &[usize], max: usize) -> Vec<Vec<usize>> {
    let mut out: Vec<Vec<usize>> = vec![vec![]];
    for &it in items {
        let mut add = vec![];
        for s in &out {
            if s.len() < max {
                let mut t = s.clone();
                t.push(it);
                add.push(t);
            }
        }
        out.extend(add);
    }
    out
}

fn permutations(n: usize) -> Vec<Vec<usize>> {
    fn rec(cur: &mut Vec<usize>, used: &mut Vec<bool>, n: usize, out: &mut Vec<Vec<usize>>) {
        if cur.len() == n {
            out.push(cur.clone());
            return;
        }
        for i in 0..n {
            if !used[i] {
                used[i] = true;
                cur.push(i);
                rec(cur, used, n, out);
                cur.pop();
                used[i] = false;
            }
        }
    }
    let mut out = vec![];
    rec(&mut vec![], &mut vec![false; n], n, &mut out);
    out
}

fn some_orders(n: usize) -> Vec<Vec<usize>> {
    let id: Vec<usize> = (0..n).collect();
    let mut out = vec![];
    for i in 0..n.saturating_sub(1) {
        let mut p = id.clone();
        p.swap(i, i + 1);
        out.push(p);
    }
    let mut r = id.clone();
    r.reverse();
    out.push(r);
    for k in 1..n {
        let mut p = id.clone();
        p.rotate_left(k);
        out.push(p);
    }
    out.sort();
    out.dedup();
    out
}

struct Cx<'a> {
    table: &'a Table,
    codec: Codec<'a>,
    ty: &'a TypeDef,
    real: &'a RealType,
    pmax: usize,
    foreign: Vec<u16>,
}

fn check_value(cx: &Cx, v: &Val, only_top: bool, acc: &mut Acc) {
    let Some(_) = cx.codec.canonical(cx.ty, v) else { return };
    let Ok((bytes, spans)) = cx.codec.encode_mapped(cx.ty, v) else { return };
    let want_debug = cx.codec.debug_string(cx.ty, v);
    let nodes = build(&bytes, &spans);
    // the tree must render back to the reference bytes, otherwise the edits below are meaningless
    match render(cx.ty, &nodes) {
        Some(r) if r == bytes => {}
        other => {
            eprintln!("MACHINERY: encoded tree of {} does not render to the reference bytes\n ref {}\n got {:?}", cx.ty.key, hex(&bytes), other.map(|b| hex(&b)));
            std::process::exit(EXIT_MACHINERY);
        }
    }
    acc.count("values", 1);
    acc.set("values", h64(&bytes));
    let vkey = format!("{:016x}", h64(&bytes));
    if !only_top {
        dt_edits(cx, v, &nodes, &bytes, &want_debug, &vkey, acc);
    }
    for (lp, under_rep) in levels(&nodes) {
        if only_top && !lp.is_empty() {
            continue;
        }
        let lvl = level(&nodes, &lp).to_vec();
        let runs = tagged_runs(&lvl);
        if runs.is_empty() {
            continue;
        }
        let first_tagged = runs[0].0;
        let n = runs.len();
        let lname = if lp.is_empty() { "top".to_string() } else { lvl_name(&nodes, &lp) };
        let mk = |edited: Vec<Node>| -> Option<Vec<u8>> {
            let mut t = nodes.clone();
            *level_mut(&mut t, &lp) = edited;
            render(cx.ty, &t)
        };
        let describe = |what: &str, input: &[u8], got: String| {
            format!("type {} level {lname}\nvalue    : {want_debug}\nref bytes: {}\nedit     : {what}\ninput    : {}\nreal     : {got}", cx.ty.key, hex_short(&bytes), hex_short(input))
        };
        // ---- permutations
        if n >= 2 {
            let orders = if n <= cx.pmax { permutations(n) } else { some_orders(n) };
            if n <= cx.pmax {
                acc.max("max_groups_fully_permuted", n as u64);
            }
            for ord in orders {
                if ord.iter().enumerate().all(|(i, x)| i == *x) {
                    continue;
                }
                let mut edited: Vec<Node> = lvl[..first_tagged].to_vec();
                for &r in &ord {
                    let (s, l) = runs[r];
                    edited.extend_from_slice(&lvl[s..s + l]);
                }
                let Some(input) = mk(edited) else { continue };
                // the reference decoder must map the permuted bytes to V, otherwise the case is skipped
                match cx.codec.decode(cx.ty, &input) {
                    Ok((rv, used)) if rv == *v && used == input.len() => {}
                    _ => {
                        acc.count("perm_skipped_ref_disagrees", 1);
                        continue;
                    }
                }
                acc.count("cases", 1);
                acc.count("calls", 1);
                acc.count("permutations", 1);
                let key = format!("c13/{}/{lname}/perm={ord:?}/{vkey}", cx.ty.key);
                match guarded(|| (cx.real.decode)(&input)) {
                    Ok(Ok((dbg, 0, _))) if dbg == want_debug => acc.count("perm_ok", 1),
                    other => acc.violation(viol(key, describe(&format!("tagged groups reordered as {ord:?}"), &input, format!("{other:?}")), input.len() as u64)),
                }
            }
        }
        // ---- duplicates
        if !under_rep {
            for (ri, &(s, l)) in runs.iter().enumerate() {
                if l != 1 || lvl[s].repeated {
                    continue;
                }
                let t = lvl[s].tagnum.unwrap();
                for p in 0..=n {
                    let at = if p < n { runs[p].0 } else { lvl.len() };
                    let mut edited = lvl.clone();
                    edited.insert(at, lvl[s].clone());
                    let Some(input) = mk(edited) else { continue };
                    acc.count("cases", 1);
                    acc.count("calls", 1);
                    acc.count("duplicates", 1);
                    let key = format!("c13/{}/{lname}/dup={t:04x}@{p}/{vkey}", cx.ty.key);
                    match guarded(|| (cx.real.decode)(&input)) {
                        Ok(Err(ZVTError::DuplicateTag(Tag(x)))) if x == t => acc.count("dup_reported", 1),
                        other => acc.violation(viol(
                            key,
                            describe(&format!("group {ri} (tag {t:#06x}) duplicated at position {p}: expected Err(DuplicateTag(Tag({t})))"), &input, format!("{other:?}")),
                            input.len() as u64,
                        )),
                    }
                }
            }
            // ---- removal of mandatory groups
            let mand: Vec<usize> = runs.iter().filter(|(s, _)| lvl[*s].mandatory).map(|(s, _)| *s).collect();
            // mandatory tagged fields that are absent already cannot occur in a canonical value
            for sub in subsets(&mand, mand.len()) {
                if sub.is_empty() {
                    continue;
                }
                let mut tags: Vec<u16> = sub.iter().map(|s| lvl[*s].tagnum.unwrap()).collect();
                tags.sort();
                let edited: Vec<Node> = lvl.iter().enumerate().filter(|(i, _)| !sub.contains(i)).map(|(_, n)| n.clone()).collect();
                let Some(input) = mk(edited) else { continue };
                acc.count("cases", 1);
                acc.count("calls", 1);
                acc.count("removals", 1);
                let key = format!("c13/{}/{lname}/remove={tags:04x?}/{vkey}", cx.ty.key);
                match guarded(|| (cx.real.decode)(&input)) {
                    Ok(Err(ZVTError::MissingRequiredTags(got))) if got.iter().map(|t| t.0).collect::<Vec<_>>() == tags => acc.count("missing_reported", 1),
                    other => acc.violation(viol(
                        key,
                        describe(&format!("mandatory groups {tags:04x?} removed: expected Err(MissingRequiredTags({tags:?}))"), &input, format!("{other:?}")),
                        input.len() as u64,
                    )),
                }
            }
        }
        // ---- foreign tag at every position
        for &ft in &cx.foreign {
            for plen in 0..=2usize {
                for p in 0..=n {
                    let at = if p < n { runs[p].0 } else { lvl.len() };
                    let mut edited = lvl.clone();
                    edited.insert(
                        at,
                        Node {
                            path: "foreign".into(),
                            tagnum: Some(ft),
                            tag: tag_bytes(ft),
                            style: Len::Ber,
                            body: Body::Leaf(vec![0x5a; plen]),
                            repeated: false,
                            mandatory: false,
                            enc: Enc::Raw,
                            pad: 0,
                            prefix_override: None,
                        },
                    );
                    let Some(input) = mk(edited) else { continue };
                    acc.count("cases", 1);
                    acc.count("calls", 1);
                    acc.count("foreign", 1);
                    let key = format!("c13/{}/{lname}/foreign={ft:04x}+{plen}@{p}/{vkey}", cx.ty.key);
                    let reference = cx.codec.decode(cx.ty, &input);
                    match guarded(|| (cx.real.decode)(&input)) {
                        Ok(Err(_)) => acc.count("foreign_rejected", 1),
                        Ok(Ok((dbg, _, _))) => match &reference {
                            Ok((rv, _)) if cx.codec.debug_string(cx.ty, rv) == dbg => acc.count("foreign_prefix_value", 1),
                            _ => acc.violation(viol(
                                key,
                                describe(
                                    &format!(
                                        "foreign group (tag {ft:#06x}, {plen} payload bytes) inserted at position {p}: expected an error or exactly the value of the bytes before it = {}",
                                        reference.as_ref().map(|(rv, _)| cx.codec.debug_string(cx.ty, rv)).unwrap_or_else(|e| format!("(reference: {e:?})"))
                                    ),
                                    &input,
                                    dbg,
                                ),
                                input.len() as u64,
                            )),
                        },
                        Err(p2) => acc.violation(viol(key, describe(&format!("foreign group (tag {ft:#06x}) at position {p}"), &input, format!("panicked: {p2}")), input.len() as u64)),
                    }
                }
            }
        }
    }
}

/// The date/time value is itself a container of two tagged parts (date 1F0E, time 1F0F) decoded by
/// hand-written code with the same rules as the tagged fields of a struct: every sequence of up to
/// four parts drawn from {date, time, another date, another time} replaces the payload.
fn dt_edits(cx: &Cx, _v: &Val, nodes: &[Node], bytes: &[u8], want_debug: &str, vkey: &str, acc: &mut Acc) {
    fn find(nodes: &[Node], path: &mut Vec<usize>, under_rep: bool, out: &mut Vec<Vec<usize>>) {
        for (i, n) in nodes.iter().enumerate() {
            path.push(i);
            match &n.body {
                Body::Leaf(_) if n.enc == Enc::Dt && !under_rep && !n.repeated => out.push(path.clone()),
                Body::Kids(k) => find(k, path, under_rep || n.repeated, out),
                _ => {}
            }
            path.pop();
        }
    }
    let mut found = vec![];
    find(nodes, &mut vec![], false, &mut found);
    for path in found {
        let leaf = {
            let lvl = level(nodes, &path[..path.len() - 1]);
            match &lvl[*path.last().unwrap()].body {
                Body::Leaf(b) => b.clone(),
                _ => unreachable!(),
            }
        };
        // the canonical payload is 1f0e 04 YYYYMMDD 1f0f 03 HHMMSS
        if leaf.len() != 13 || leaf[..3] != [0x1f, 0x0e, 4] || leaf[7..10] != [0x1f, 0x0f, 3] {
            eprintln!("MACHINERY: date/time payload of {} is not in the canonical form: {}", cx.ty.key, hex(&leaf));
            std::process::exit(EXIT_MACHINERY);
        }
        let d = leaf[..7].to_vec();
        let t = leaf[7..].to_vec();
        let mut d2 = d.clone();
        d2[6] = if d[6] == 0x01 { 0x02 } else { 0x01 };
        let mut t2 = t.clone();
        t2[5] = if t[5] == 0x00 { 0x01 } else { 0x00 };
        let parts: [(&str, u16, &Vec<u8>); 4] = [("date", 0x1f0e, &d), ("time", 0x1f0f, &t), ("date'", 0x1f0e, &d2), ("time'", 0x1f0f, &t2)];
        let mut seqs: Vec<Vec<usize>> = vec![vec![]];
        let mut frontier: Vec<Vec<usize>> = vec![vec![]];
        for _ in 0..4 {
            let mut next = vec![];
            for s in &frontier {
                for p in 0..4 {
                    let mut n = s.clone();
                    n.push(p);
                    next.push(n);
                }
            }
            seqs.extend(next.iter().cloned());
            frontier = next;
        }
        for seq in seqs {
            if seq == [0, 1] {
                continue;
            }
            let mut payload = vec![];
            for &p in &seq {
                payload.extend_from_slice(parts[p].2);
            }
            let mut tr = nodes.to_vec();
            level_mut(&mut tr, &path[..path.len() - 1])[*path.last().unwrap()].body = Body::Leaf(payload);
            let Some(input) = render(cx.ty, &tr) else { continue };
            // expectation by a plain scan of the sequence
            let mut seen: Vec<u16> = vec![];
            let mut dup = None;
            for &p in &seq {
                if seen.contains(&parts[p].1) {
                    dup = Some(parts[p].1);
                    break;
                }
                seen.push(parts[p].1);
            }
            let names: Vec<&str> = seq.iter().map(|p| parts[*p].0).collect();
            let key = format!("c13/{}/date-time-parts={names:?}/{vkey}", cx.ty.key);
            let describe = |what: &str, got: String| format!("type {} date/time value\nvalue    : {want_debug}\nref bytes: {}\nedit     : the parts of the date/time value are {names:?}; {what}\ninput    : {}\nreal     : {got}", cx.ty.key, hex_short(bytes), hex_short(&input));
            let reference = cx.codec.decode(cx.ty, &input);
            acc.count("cases", 1);
            acc.count("calls", 1);
            acc.count("date_time_part_sequences", 1);
            let got = guarded(|| (cx.real.decode)(&input));
            match (dup, seen.len()) {
                (Some(tag), _) => {
                    if !matches!(reference, Err(RefErr::Duplicate(x)) if x == tag) {
                        eprintln!("MACHINERY: reference decoder disagrees with the part scan on {names:?}: {reference:?}");
                        std::process::exit(EXIT_MACHINERY);
                    }
                    match got {
                        Ok(Err(ZVTError::DuplicateTag(Tag(x)))) if x == tag => acc.count("dt_dup_reported", 1),
                        other => acc.violation(viol(key, describe(&format!("expected Err(DuplicateTag(Tag({tag})))"), format!("{other:?}")), input.len() as u64)),
                    }
                }
                (None, 2) => {
                    let Ok((rv, used)) = &reference else {
                        eprintln!("MACHINERY: reference decoder rejects the part sequence {names:?}: {reference:?}");
                        std::process::exit(EXIT_MACHINERY);
                    };
                    let want = cx.codec.debug_string(cx.ty, rv);
                    match got {
                        Ok(Ok((dbg, 0, _))) if dbg == want && *used == input.len() => acc.count("dt_perm_ok", 1),
                        other => acc.violation(viol(key, describe(&format!("expected the value {want}"), format!("{other:?}")), input.len() as u64)),
                    }
                }
                (None, _) => match got {
                    Ok(Err(_)) => acc.count("dt_missing_rejected", 1),
                    other => acc.violation(viol(key, describe("a part is missing: expected an error", format!("{other:?}")), input.len() as u64)),
                },
            }
        }
    }
}

fn lvl_name(nodes: &[Node], lp: &[usize]) -> String {
    let mut cur = nodes;
    let mut name = String::new();
    for i in lp {
        name = cur[*i].path.clone();
        if let Body::Kids(k) = &cur[*i].body {
            cur = k;
        }
    }
    name
}

// ---- struct types with more mandatory tagged fields than any shipped packet has (which is two):
//      defined here with the real derive macro; the statement is about tagged fields of any packet type
mod many {
    use zvt::Zvt;
    #[derive(Zvt, PartialEq, Debug, Clone)]
    pub struct M3 {
        #[zvt_bmp(number = 0x01)]
        pub a: u8,
        #[zvt_bmp(number = 0x02)]
        pub b: u8,
        #[zvt_bmp(number = 0x03)]
        pub c: u8,
        #[zvt_bmp(number = 0x04)]
        pub d: Option<u8>,
    }
    #[derive(Zvt, PartialEq, Debug, Clone)]
    pub struct M5 {
        #[zvt_bmp(number = 0x49)]
        pub a: u8,
        #[zvt_bmp(number = 0x19)]
        pub b: u8,
        #[zvt_bmp(number = 0x87)]
        pub c: u8,
        #[zvt_bmp(number = 0x22)]
        pub d: u8,
        #[zvt_bmp(number = 0x04)]
        pub e: u8,
    }
}

/// `groups`: (tag, mandatory, encoded group) of a value of T in declaration order
fn many_case<T: zvt::ZvtSerializer + PartialEq + std::fmt::Debug>(name: &str, value: &T, groups: &[(u16, bool, Vec<u8>)], acc: &mut Acc)
where
    zvt_builder::encoding::Default: zvt_builder::encoding::Encoding<T>,
{
    let n = groups.len();
    let decode = |bytes: &[u8]| guarded(|| T::zvt_deserialize(bytes).map(|(v, r)| (format!("{v:?}"), r.len())));
    let want = format!("{value:?}");
    for perm in permutations(n) {
        let bytes: Vec<u8> = perm.iter().flat_map(|i| groups[*i].2.clone()).collect();
        acc.count("cases", 1);
        acc.count("many_mandatory_cases", 1);
        let key = format!("c13/many-mandatory/{name}/perm={perm:?}");
        match decode(&bytes) {
            Ok(Ok((d, 0))) if d == want => acc.count("w_many_permuted", 1),
            other => acc.violation(viol(key.clone(), format!("struct {name} with {n} tagged fields in the order {perm:?} ({}): expected {want}, got {other:?}", hex(&bytes)), n as u64)),
        }
        // a duplicate of every group at every position
        for g in 0..n {
            for at in 0..=n {
                let mut order: Vec<usize> = perm.clone();
                order.insert(at, g);
                let bytes: Vec<u8> = order.iter().flat_map(|i| groups[*i].2.clone()).collect();
                acc.count("cases", 1);
                acc.count("many_mandatory_cases", 1);
                match decode(&bytes) {
                    Ok(Err(ZVTError::DuplicateTag(Tag(t)))) if t == groups[g].0 => acc.count("w_many_duplicate", 1),
                    other => acc.violation(viol(format!("{key}/dup={g}@{at}"), format!("struct {name}: groups in the order {order:?} ({}), tag {:#x} occurs twice: expected DuplicateTag naming it, got {other:?}", hex(&bytes), groups[g].0), n as u64)),
                }
            }
        }
        // every non-empty subset of the mandatory groups removed
        for mask in 1u32..(1 << n) {
            if (0..n).any(|i| mask & (1 << i) != 0 && !groups[i].1) {
                continue;
            }
            let bytes: Vec<u8> = perm.iter().filter(|i| mask & (1 << **i) == 0).flat_map(|i| groups[*i].2.clone()).collect();
            let mut missing: Vec<u16> = (0..n).filter(|i| mask & (1 << *i) != 0).map(|i| groups[i].0).collect();
            missing.sort();
            acc.count("cases", 1);
            acc.count("many_mandatory_cases", 1);
            match decode(&bytes) {
                Ok(Err(ZVTError::MissingRequiredTags(ts))) => {
                    let mut got: Vec<u16> = ts.iter().map(|t| t.0).collect();
                    got.sort();
                    if got == missing {
                        acc.count("w_many_missing", 1);
                    } else {
                        acc.violation(viol(format!("{key}/missing={mask:b}"), format!("struct {name}: groups {perm:?} without the mandatory tags {missing:x?} ({}): the error names {got:x?}", hex(&bytes)), n as u64));
                    }
                }
                other => acc.violation(viol(format!("{key}/missing={mask:b}"), format!("struct {name}: groups {perm:?} without the mandatory tags {missing:x?} ({}): expected MissingRequiredTags naming all of them, got {other:?}", hex(&bytes)), n as u64)),
            }
        }
    }
}

fn many_mandatory(acc: &mut Acc) {
    use many::*;
    for (a, b, c) in [(1u8, 2u8, 3u8), (0, 0, 0), (255, 3, 1), (2, 1, 2)] {
        let v = M3 { a, b, c, d: Some(9) };
        many_case("M3+optional", &v, &[(1, true, vec![1, a]), (2, true, vec![2, b]), (3, true, vec![3, c]), (4, false, vec![4, 9])], acc);
        let v = M3 { a, b, c, d: None };
        many_case("M3", &v, &[(1, true, vec![1, a]), (2, true, vec![2, b]), (3, true, vec![3, c])], acc);
    }
    let v = M5 { a: 1, b: 0x49, c: 0x19, d: 0x04, e: 0x87 };
    many_case("M5", &v, &[(0x49, true, vec![0x49, 1]), (0x19, true, vec![0x19, 0x49]), (0x87, true, vec![0x87, 0x19]), (0x22, true, vec![0x22, 0x04]), (0x04, true, vec![0x04, 0x87])], acc);
}

pub fn run(run: &RunInfo) -> Summary {
    let table = shipped();
    let types = table.all();
    let reg = registry();
    let thorough = run.thorough();
    let smax = if thorough { 5 } else { 3 };
    let pmax = if thorough { 6 } else { 5 };
    // work items: (type, kind, chunk)
    let mut items: Vec<(usize, usize)> = vec![];
    for ti in 0..types.len() {
        if types[ti].fields.iter().any(|f| f.tag.is_some()) || types[ti].fields.iter().any(|f| matches!(f.enc, Enc::Nested(_))) {
            for part in 0..8 {
                items.push((ti, part));
            }
        }
    }
    let mut acc = par_for(items.len(), |ix, acc| {
        let (ti, part) = items[ix];
        let ty = types[ti];
        let real = reg.iter().find(|r| r.key == ty.key).unwrap();
        let mut known = vec![];
        all_tags(&table, ty, &mut known);
        let foreign: Vec<u16> = {
            let one = [0x7eu16, 0x5a, 0x33, 0x6e].into_iter().find(|t| !known.contains(t)).unwrap();
            let two = [0x1f7fu16, 0x1f7e, 0xff7e].into_iter().find(|t| !known.contains(t)).unwrap();
            vec![one, two]
        };
        let cx = Cx { table: &table, codec: Codec::new(&table), ty, real, pmax, foreign };
        if part == 0 {
            // all-present rows: every level of the tree
            for pick in 0..3 {
                for vlen in 1..=2 {
                    check_value(&cx, &all_present(&table, ty, pick, vlen), false, acc);
                }
            }
            check_value(&cx, &baseline(&table, ty), false, acc);
        }
        // presence subsets of the tagged top-level fields
        let tagged: Vec<usize> = ty.fields.iter().enumerate().filter(|(_, f)| f.tag.is_some() && f.wrap != Wrap::Bare).map(|(i, _)| i).collect();
        let subs = subsets(&tagged, smax.max(if tagged.len() <= 12 { 6.min(pmax) } else { 0 }));
        for (si, sub) in subs.iter().enumerate() {
            if si % 8 != part || sub.len() < 2 {
                continue;
            }
            if sub.len() > smax && tagged.len() > 12 {
                continue;
            }
            check_value(&cx, &presence_value(&table, ty, sub, si % 3), true, acc);
        }
    });
    if !skip_for_replay(run, "c13/many-mandatory/") {
        let part = par_for(1, |_, acc| many_mandatory(acc));
        acc.merge(part);
        if acc.get("w_many_permuted") > 0 && acc.get("w_many_duplicate") > 0 && acc.get("w_many_missing") > 0 {
            acc.witness("structs with three and five mandatory tagged fields: every order, duplicate and missing subset");
        }
    }
    for (w, c) in [
        ("permuted groups decoded to the same value", "perm_ok"),
        ("duplicates reported with their tag", "dup_reported"),
        ("missing mandatory tags reported", "missing_reported"),
        ("foreign tag rejected", "foreign_rejected"),
        ("foreign tag gave exactly the preceding value", "foreign_prefix_value"),
        ("date/time parts in the other order decoded to the same value", "dt_perm_ok"),
        ("a repeated date/time part was reported as a duplicate of its tag", "dt_dup_reported"),
        ("a date/time value lacking a part was rejected", "dt_missing_rejected"),
    ] {
        if acc.get(c) > 0 {
            acc.witness(w);
        }
    }
    if acc.maxima.get("max_groups_fully_permuted").copied().unwrap_or(0) >= pmax as u64 {
        acc.witness("all permutations of the maximal group count were decoded");
    }
    acc.sample(json!({"type": "Bmp60", "edit": "groups 1F62/1F63 swapped", "expected": "same value"}));
    acc.sample(json!({"type": "SetTimeAndDate", "edit": "group AA duplicated at position 2", "expected": "Err(DuplicateTag(Tag(170)))"}));
    acc.sample(json!({"type": "Bmp60", "edit": "mandatory groups [1F62, 1F63] removed", "expected": "Err(MissingRequiredTags([Tag(8034), Tag(8035)]))"}));
    let cases = acc.get("cases");
    acc.count("evaluations", cases);
    Summary {
        states: cases,
        transitions: acc.get("calls"),
        traces_validated: cases,
        distinct_nontrivial: acc.get("perm_ok") + acc.get("dup_reported") + acc.get("missing_reported") + acc.get("foreign_rejected") + acc.get("foreign_prefix_value") + acc.get("dt_perm_ok") + acc.get("dt_dup_reported") + acc.get("dt_missing_rejected"),
        rule: format!("55 shipped types x (all-present rows at every nesting level + every subset of <= {smax} present tagged top-level fields): all permutations of the tagged groups of a level up to {pmax} groups (adjacent transpositions, reversal, rotations above), every non-repeated group duplicated at every position, every non-empty subset of mandatory groups removed, a foreign group (one- and two-byte tag unknown to the whole type, 0..2 payload bytes) at every position; two struct types defined with the real derive macro that have three (plus one optional) and five mandatory tagged fields - more than any shipped packet: all permutations, a duplicate of every group at every position, every non-empty subset of the mandatory groups removed in every order of the rest; inside every date/time value every sequence of 0..4 parts over (date, time, a second date, a second time). distinct_nontrivial = edited inputs on which the real decoder gave the demanded answer"),
        exhaustive: true,
        required_witnesses: vec![
            "structs with three and five mandatory tagged fields: every order, duplicate and missing subset".into(),
            "permuted groups decoded to the same value".into(),
            "duplicates reported with their tag".into(),
            "missing mandatory tags reported".into(),
            "foreign tag gave exactly the preceding value".into(),
            "all permutations of the maximal group count were decoded".into(),
            "date/time parts in the other order decoded to the same value".into(),
            "a repeated date/time part was reported as a duplicate of its tag".into(),
            "a date/time value lacking a part was rejected".into(),
        ],
        assumptions: vec![
            "duplicates and removals inside an element of a repeated field are outside the alphabet (element boundary rule makes 'twice' ambiguous)".into(),
            "the expected value after a foreign tag is the reference decoder's (fields before the foreign group)".into(),
            "generated structs of C12 are covered by the C12 check, not here".into(),
        ],
        bounds: json!({"subset_size": smax, "full_permutations_up_to": pmax}),
        caps_hit: vec![],
        evaluations_counter: "evaluations".into(),
        acc,
    }
}
