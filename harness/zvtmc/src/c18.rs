//! C18 - card identity is a fixed function of the data the terminal reports.
use crate::client::*;
use crate::scen::*;
use crate::sim::Sh;
use crate::simterm::*;
use crate::util::*;
use serde_json::json;
use std::cell::RefCell;
use std::rc::Rc;
use vcore::dbx::Ctx;
use vcore::report::*;

#[derive(Clone, Debug)]
enum Reply {
    /// uid hex (None: absent), application list (None: absent), TLV container present
    /// `rich`: accompanied by every other field a real terminal reports with a card
    Status { uid: Option<String>, apps: Option<Vec<Option<String>>>, tlv: bool, rich: bool },
    Abort(u8),
}

#[derive(Clone, Debug, PartialEq)]
enum Want {
    Bank,
    Membership(String),
    /// an error, never a membership card (a payment application is listed)
    BankOrError,
    /// the statement does not say whether the UID or an error is returned; Bank is wrong
    MembershipOrError(Option<String>),
    Error,
    NoCard,
    /// an error that is not 'no card presented'
    ErrorNotNoCard,
}

/// the reference function of the statement
fn reference(r: &Reply) -> Want {
    match r {
        Reply::Abort(0x6c) => Want::NoCard,
        Reply::Abort(_) => Want::ErrorNotNoCard,
        Reply::Status { tlv: false, .. } => Want::Error,
        Reply::Status { uid, apps, .. } => {
            let membership = |u: &String| -> String {
                let mut s = u.to_uppercase();
                if s.len() > 14 {
                    s = s[s.len() - 14..].to_string();
                    if let Some(rest) = s.strip_prefix("000000") {
                        s = rest.to_string();
                    }
                }
                s
            };
            let list = apps.clone().unwrap_or_default();
            if list.is_empty() {
                match uid {
                    Some(u) => Want::Membership(membership(u)),
                    None => Want::Error,
                }
            } else if list[0].is_some() {
                Want::Bank
            } else if list.iter().any(|a| a.is_some()) {
                Want::BankOrError
            } else {
                Want::MembershipOrError(uid.as_ref().map(membership))
            }
        }
    }
}

fn run_case(reply: &Reply, inter: usize, pace_ms: u64, acc: &mut Acc) -> (OpResult, OpResult) {
    let mut ctx = Ctx::new(vec![], vec![], 0);
    let sh: Sh = Rc::new(RefCell::new(std::mem::replace(&mut ctx, Ctx::new(vec![], vec![], 0))));
    let rp = reply.clone();
    let hook: Hook = Box::new(move |t, _ctx, req, x, _nth| {
        if x != Xch::Main || req.key != "ReadCard" {
            return None;
        }
        let r = Replies { table: t.table };
        let mut s = vec![r.ack()];
        let pace = |s: &mut Vec<Step>| {
            if pace_ms > 0 {
                s.push(Step::Delay(std::time::Duration::from_millis(pace_ms)));
            }
        };
        for _ in 0..inter {
            pace(&mut s);
            s.push(r.intermediate(0x17));
        }
        pace(&mut s);
        match &rp {
            Reply::Abort(c) => s.push(r.abort(*c)),
            Reply::Status { uid, apps, tlv, rich } => {
                let a: Option<Vec<Option<&str>>> = apps.as_ref().map(|l| l.iter().map(|x| x.as_deref()).collect());
                s.push(r.card_status_ex(uid.as_deref(), a.as_deref(), *tlv, *rich))
            }
        }
        Some(s)
    });
    let sc = Scenario::new(sh.clone(), hook);
    let out = match sc.new_feig(base_config()) {
        Err(e) => (OpResult::Panicked(e.clone()), OpResult::Panicked(e)),
        Ok(mut feig) => {
            // the same card presented twice
            let a = sc.run(&mut feig, &Op::ReadCard);
            let b = sc.run(&mut feig, &Op::ReadCard);
            acc.count("transitions", 2);
            drop(feig);
            (a, b)
        }
    };
    drop(sc);
    out
}

/// several cards presented one after the other to the same client: read i is answered with `replies[i]`
fn run_seq(replies: &[Reply], acc: &mut Acc) -> Vec<OpResult> {
    let mut ctx = Ctx::new(vec![], vec![], 0);
    let sh: Sh = Rc::new(RefCell::new(std::mem::replace(&mut ctx, Ctx::new(vec![], vec![], 0))));
    let rs = replies.to_vec();
    let mut seen = 0usize;
    let hook: Hook = Box::new(move |t, _ctx, req, x, _nth| {
        if x != Xch::Main || req.key != "ReadCard" {
            return None;
        }
        let r = Replies { table: t.table };
        let mut s = vec![r.ack(), r.intermediate(0x17)];
        match &rs[seen.min(rs.len() - 1)] {
            Reply::Abort(c) => s.push(r.abort(*c)),
            Reply::Status { uid, apps, tlv, rich } => {
                let a: Option<Vec<Option<&str>>> = apps.as_ref().map(|l| l.iter().map(|x| x.as_deref()).collect());
                s.push(r.card_status_ex(uid.as_deref(), a.as_deref(), *tlv, *rich))
            }
        }
        seen += 1;
        Some(s)
    });
    let sc = Scenario::new(sh.clone(), hook);
    let out = match sc.new_feig(base_config()) {
        Err(e) => vec![OpResult::Panicked(e)],
        Ok(mut feig) => {
            let mut v = vec![];
            for _ in replies {
                v.push(sc.run(&mut feig, &Op::ReadCard));
                acc.count("transitions", 1);
            }
            drop(feig);
            v
        }
    };
    drop(sc);
    out
}

/// Different cards on one client: the result of a read is a function of that read's reply alone,
/// whatever was presented before. Alphabet: UIDs related through the canonical form (a tail alone,
/// the tail behind 000000, behind longer runs of zeros, behind other digits, in both letter cases,
/// tails that share a suffix), a bank card, 'no card' and an abort; every ordered pair is presented
/// as first, second, first again.
fn related_cards() -> Vec<Reply> {
    let mut uids: Vec<String> = vec![];
    for tail in ["a1b2c3d4", "04a1b2c3d4e5f6", "12345678", "00a1b2c3d4e5f6"] {
        for pre in ["", "000000", "000000000000", "00", "99", "0000000000000000", "ff0000"] {
            let u = format!("{pre}{tail}");
            if u.len() % 2 == 0 && u.len() <= 40 {
                uids.push(u.clone());
                uids.push(u.to_uppercase());
            }
        }
    }
    uids.sort();
    uids.dedup();
    let mut v: Vec<Reply> = uids.into_iter().map(|u| Reply::Status { uid: Some(u), apps: None, tlv: true, rich: false }).collect();
    v.push(Reply::Status { uid: Some("000000a1b2c3d4".into()), apps: Some(vec![Some("a0000000041010".to_string())]), tlv: true, rich: false });
    v.push(Reply::Status { uid: Some("a1b2c3d4".into()), apps: Some(vec![Some("a0000000041010".to_string())]), tlv: true, rich: true });
    v.push(Reply::Abort(0x6c));
    v.push(Reply::Abort(0x64));
    v
}

fn judge(want: &Want, got: &OpResult) -> Option<String> {
    let ok = match (want, got) {
        (Want::Bank, OpResult::Card(Ok(CardView::Bank))) => true,
        (Want::Membership(m), OpResult::Card(Ok(CardView::Membership(g)))) => m == g,
        (Want::BankOrError, OpResult::Card(Ok(CardView::Bank))) => true,
        (Want::BankOrError, OpResult::Card(Err(_))) => true,
        (Want::MembershipOrError(m), OpResult::Card(Ok(CardView::Membership(g)))) => m.as_ref() == Some(g),
        (Want::MembershipOrError(_), OpResult::Card(Err(_))) => true,
        (Want::Error, OpResult::Card(Err(_))) => true,
        (Want::NoCard, OpResult::Card(Err((ErrClass::NoCardPresented, _)))) => true,
        (Want::ErrorNotNoCard, OpResult::Card(Err((c, _)))) => *c != ErrClass::NoCardPresented,
        _ => false,
    };
    if ok {
        None
    } else {
        Some(format!("expected {want:?}, got {}", got.short()))
    }
}

pub fn run(run: &RunInfo) -> Summary {
    let mut replies: Vec<Reply> = vec![];
    // UIDs: absent, or 0..=20 bytes with 0..=len leading zero bytes and two tail patterns
    let mut uids: Vec<Option<String>> = vec![None];
    for len in 0..=20usize {
        for zeros in 0..=len {
            for pat in 0..2 {
                let mut s = String::new();
                for i in 0..len {
                    if i < zeros {
                        s.push_str("00");
                    } else if pat == 0 {
                        s.push_str(&format!("{:02x}", [0x12, 0x34, 0x56, 0x78, 0x90, 0x21, 0x43][i % 7]));
                    } else {
                        s.push_str(&format!("{:02x}", [0xab, 0xcd, 0xef, 0x0a, 0xb0, 0x9f][i % 6]));
                    }
                }
                uids.push(Some(s));
            }
        }
    }
    uids.sort();
    uids.dedup();
    let app = |s: &str| Some(s.to_string());
    let lists: Vec<Option<Vec<Option<String>>>> = vec![
        None,
        Some(vec![app("a0000000041010")]),
        Some(vec![app("a0000000041010"), app("a0000003591010028001")]),
        Some(vec![None]),
        Some(vec![None, app("a0000000043060")]),
        Some(vec![app("a0000000041010"), None]),
        Some(vec![app("a0000000041010"), None, app("a0000003591010028001")]),
        Some(vec![None, None]),
        Some(vec![]),
    ];
    for u in &uids {
        replies.push(Reply::Status { uid: u.clone(), apps: None, tlv: true, rich: false });
    }
    for l in &lists[1..] {
        for u in [None, Some("0000000000081ca72f".to_string()), Some("04a1b2c3".to_string()), Some("00000004a1b2c3d4".to_string())] {
            replies.push(Reply::Status { uid: u.clone(), apps: l.clone(), tlv: true, rich: false });
            replies.push(Reply::Status { uid: u, apps: l.clone(), tlv: true, rich: true });
        }
    }
    for u in ["0000000000081ca72f", "04a1b2c3", "00000004a1b2c3d4", "0000000000000000005a"] {
        replies.push(Reply::Status { uid: Some(u.to_string()), apps: None, tlv: true, rich: true });
    }
    replies.push(Reply::Status { uid: None, apps: None, tlv: false, rich: false });
    replies.push(Reply::Status { uid: None, apps: None, tlv: false, rich: true });
    for c in 0..=255u8 {
        replies.push(Reply::Abort(c));
    }
    let mut acc = par_for(replies.len(), |ix, acc| {
        let reply = &replies[ix];
        let key = format!("c18/{reply:?}");
        if skip_for_replay(run, &key) {
            return;
        }
        let want = reference(reply);
        let mut first: Option<String> = None;
        // every packet of the reply either at once or 16 s after the previous one (the time-out of a
        // card read is read_card_timeout + 2 = 17 s per packet)
        for &(k, pace_ms) in &[(0usize, 0u64), (1, 0), (2, 0), (0, 16_000), (1, 16_000), (2, 16_000)] {
            if pace_ms > 0 {
                acc.count("w_slow", 1);
            }
            let (a, b) = run_case(reply, k, pace_ms, acc);
            acc.count("executions", 1);
            let mut problems = vec![];
            if let Some(p) = judge(&want, &a) {
                problems.push(format!("first presentation: {p}"));
            }
            if let Some(p) = judge(&want, &b) {
                problems.push(format!("second presentation: {p}"));
            }
            if a.short() != b.short() {
                problems.push(format!("two presentations of the same card differ: {} vs {}", a.short(), b.short()));
            }
            match &first {
                None => first = Some(a.short()),
                Some(f) => {
                    if *f != a.short() {
                        problems.push(format!("the result depends on the number of preceding intermediate statuses: {f} with 0, {} with {k}", a.short()));
                    }
                }
            }
            match &want {
                Want::Bank => acc.count("w_bank", 1),
                Want::Membership(m) => {
                    acc.count("w_membership", 1);
                    if let Reply::Status { uid: Some(u), .. } = reply {
                        if u.len() > 14 {
                            acc.count("w_long_uid", 1);
                            if m.len() < 14 {
                                acc.count("w_leading_zeros_dropped", 1);
                            }
                        }
                        if u.len() == 14 && u.starts_with("000000") {
                            acc.count("w_exactly_14_with_zeros", 1);
                        }
                    }
                }
                _ => acc.count("w_other", 1),
            }
            acc.set("outcomes", h64(&(a.short(), &key)));
            if !problems.is_empty() {
                acc.violation(viol(format!("{key}/intermediates={k}/pace={pace_ms}"), format!("terminal reply to read card: {reply:?} after {k} intermediate statuses, each packet {pace_ms} ms after the previous one\n{}", problems.join("\n")), ix as u64));
            }
        }
    });
    // different cards one after the other on the same client
    let rel = related_cards();
    let part = par_for(rel.len(), |ia, acc| {
        if skip_for_replay(run, "c18/sequence/") {
            return;
        }
        for ib in 0..rel.len() {
            let seq = [rel[ia].clone(), rel[ib].clone(), rel[ia].clone()];
            let got = run_seq(&seq, acc);
            acc.count("executions", 1);
            acc.count("w_sequences", 1);
            let mut problems = vec![];
            for (i, r) in seq.iter().enumerate() {
                match got.get(i) {
                    Some(g) => {
                        if let Some(p) = judge(&reference(r), g) {
                            problems.push(format!("read {i} ({r:?}): {p}"));
                        }
                    }
                    None => problems.push(format!("read {i} was never made")),
                }
            }
            acc.set("outcomes", h64(&(got.iter().map(|g| g.short()).collect::<Vec<_>>(), ia, ib)));
            if !problems.is_empty() {
                acc.violation(viol(format!("c18/sequence/{ia}/{ib}"), format!("cards presented one after the other to the same client:\n  {:?}\n  {:?}\n  {:?}\nresults: {:?}\n{}", seq[0], seq[1], seq[2], got.iter().map(|g| g.short()).collect::<Vec<_>>(), problems.join("\n")), (ia + ib) as u64));
            }
        }
    });
    acc.merge(part);
    for (c, w) in [
        ("w_sequences", "different cards presented one after the other to the same client"),
        ("w_slow", "replies paced one second inside the per-packet time-out"),
        ("w_bank", "bank cards classified"),
        ("w_membership", "membership ids derived from the UID"),
        ("w_long_uid", "UIDs longer than 14 digits cut"),
        ("w_leading_zeros_dropped", "leading 000000 dropped after cutting"),
        ("w_exactly_14_with_zeros", "UID of exactly 14 digits starting with 000000 kept"),
    ] {
        if acc.get(c) > 0 {
            acc.witness(w);
        }
    }
    acc.sample(json!({"uid": "0000000000081ca72f", "apps": null, "expected": "MembershipCard(00081CA72F -> last 14 digits, leading 000000 dropped)"}));
    acc.sample(json!({"uid": "04a1b2c3", "apps": ["a0000000041010"], "expected": "Bank"}));
    let execs = acc.get("executions");
    acc.count("evaluations", execs);
    Summary {
        states: acc.set_len("outcomes"),
        transitions: acc.get("transitions"),
        traces_validated: execs,
        distinct_nontrivial: acc.set_len("outcomes"),
        rule: format!("real Feig::read_card (called twice) against the simulated terminal for {} replies: UID absent or of 0..=20 bytes with every count of leading zero bytes and two tail patterns (digits only / hex letters); application list absent, one entry with id, two with ids, one without id, one without followed by one with id, one with followed by one without, with / without / with, two without, empty, combined with four UIDs; status without TLV container; replies accompanied by every other field a terminal reports with a card (track data, 12-digit pre-authorisation limit, 20-digit card number, ATS/ATQA/SAK ...); all 256 abort codes; each preceded by 0, 1 and 2 intermediate statuses, every packet sent at once or 16 s after the previous one (one second inside the per-packet time-out). Then every ordered pair over {} related replies (UIDs that share a tail behind different prefixes, in both letter cases, a bank card, 'no card', an abort) presented to one client as first, second, first again: every read is judged by its own reply alone. Oracle: the reference function of the statement; both presentations and all intermediate counts must agree", replies.len(), related_cards().len()),
        exhaustive: true,
        required_witnesses: vec![
            "different cards presented one after the other to the same client".into(),
            "replies paced one second inside the per-packet time-out".into(),
            "bank cards classified".into(),
            "membership ids derived from the UID".into(),
            "UIDs longer than 14 digits cut".into(),
            "leading 000000 dropped after cutting".into(),
            "UID of exactly 14 digits starting with 000000 kept".into(),
        ],
        assumptions: vec![
            "for an application list whose entries carry no id the statement does not say whether the UID or an error is returned; both are accepted, Bank is not".into(),
            "the 'applications on card' container (tag 62) is not part of the alphabet".into(),
        ],
        bounds: json!({"replies": replies.len(), "intermediates": "0..=2"}),
        caps_hit: vec![],
        evaluations_counter: "evaluations".into(),
        acc,
    }
}
