//! C20 - a terminal abort always surfaces as an error identifying its result code.
use crate::client::*;
use crate::errmsgs::message_of;
use crate::scen::*;
use crate::sim::Sh;
use crate::simterm::*;
use crate::util::*;
use serde_json::json;
use std::cell::RefCell;
use std::rc::Rc;
use vcore::dbx::Ctx;
use vcore::report::*;

#[derive(Clone, Debug, PartialEq)]
struct Site {
    /// label of the public operation
    op: Op,
    /// operations run before it (not aborted)
    pre: Vec<Op>,
    /// exchange of `op` in which the abort is injected
    xch: Xch,
    request: &'static str,
    /// the terminal holds a dangling pre-authorisation (needed to reach P2)
    dangling: bool,
    /// the terminal id differs from the configured one (needed to reach K2)
    id_differs: bool,
    /// intermediate packets allowed in this exchange's reply set
    max_inter: usize,
    name: &'static str,
}

fn sites() -> Vec<Site> {
    let b = Op::Begin("A".into());
    let commit = Op::Commit("A".into(), 1295);
    let cancel = Op::Cancel("A".into());
    let s = |name, op: &Op, pre: &[Op], xch, request, dangling, id_differs, max_inter| Site { op: op.clone(), pre: pre.to_vec(), xch, request, dangling, id_differs, max_inter, name };
    vec![
        s("read_card", &Op::ReadCard, &[], Xch::Main, "ReadCard", false, false, 2),
        s("begin/reservation", &b, &[], Xch::Main, "Reservation", false, false, 2),
        s("commit/partial-reversal", &commit, &[b.clone()], Xch::Main, "PartialReversal", false, false, 2),
        s("cancel/reversal", &cancel, &[b.clone()], Xch::Main, "PreAuthReversal", false, false, 2),
        s("commit/pending-query", &commit, &[b.clone()], Xch::P1, "PartialReversal", false, false, 2),
        s("commit/dangling-reversal", &commit, &[b.clone()], Xch::P2, "PreAuthReversal", true, false, 2),
        s("commit/end-of-day", &commit, &[b.clone()], Xch::P3, "EndOfDay", false, false, 2),
        s("cancel/pending-query", &cancel, &[b.clone()], Xch::P1, "PartialReversal", false, false, 2),
        s("cancel/dangling-reversal", &cancel, &[b.clone()], Xch::P2, "PreAuthReversal", true, false, 2),
        s("cancel/end-of-day", &cancel, &[b.clone()], Xch::P3, "EndOfDay", false, false, 2),
        s("configure/system-info", &Op::Configure, &[], Xch::K1, "feig::CVendFunctions", false, false, 0),
        s("configure/set-terminal-id", &Op::Configure, &[], Xch::K2, "SetTerminalId", false, true, 0),
        s("configure/initialization", &Op::Configure, &[], Xch::K3, "Initialization", false, false, 2),
        s("configure/pending-query", &Op::Configure, &[], Xch::P1, "PartialReversal", false, false, 2),
        s("configure/dangling-reversal", &Op::Configure, &[], Xch::P2, "PreAuthReversal", true, false, 2),
        s("configure/end-of-day", &Op::Configure, &[], Xch::P3, "EndOfDay", false, false, 2),
    ]
}

#[derive(Debug, PartialEq)]
enum Want {
    /// the call fails and the error identifies the code
    FailsIdentifying,
    NoCard,
    NeedsPin,
    /// documented: the call carries on as if the exchange had completed
    Tolerated,
}

fn want(site: &Site, code: u8) -> Want {
    match (site.xch, site.request, code) {
        (Xch::Main, "ReadCard", 0x6c) => Want::NoCard,
        (Xch::Main, "Reservation", 0xfc) => Want::NeedsPin,
        (Xch::P3, _, 0xa0) => Want::Tolerated,
        // 'error pre-authorisation' is the specified reply format of the pending query (2.10.1)
        (Xch::P1, _, 0xb8) => Want::Tolerated,
        _ => Want::FailsIdentifying,
    }
}

fn run_case(site: &Site, code: u8, inter: usize, receipt_field: Option<u32>, paced: bool, acc: &mut Acc) -> (Option<OpResult>, Vec<String>) {
    let mut ctx = Ctx::new(vec![], vec![], 0);
    let sh: Sh = Rc::new(RefCell::new(std::mem::replace(&mut ctx, Ctx::new(vec![], vec![], 0))));
    let armed = Rc::new(RefCell::new(false));
    let hit = Rc::new(RefCell::new(0usize));
    let (armed2, hit2) = (armed.clone(), hit.clone());
    let (xch, request) = (site.xch, site.request);
    let hook: Hook = Box::new(move |t, _ctx, req, x, _nth| {
        if !*armed2.borrow() || x != xch || req.key != request || *hit2.borrow() > 0 {
            return None;
        }
        *hit2.borrow_mut() += 1;
        let r = Replies { table: t.table };
        let mut s = vec![r.ack()];
        // paced: every packet follows the previous one a second inside the per-packet time-out, so the
        // exchange as a whole lasts longer than one time-out
        let gap = std::time::Duration::from_millis(if request == "ReadCard" { 16_000 } else { 59_000 });
        if inter <= 2 {
            for _ in 0..inter {
                if paced {
                    s.push(Step::Delay(gap));
                }
                s.push(r.intermediate(0x17));
            }
        } else {
            // a status information with a result code of its own ahead of the abort
            let own = if inter == 3 { 0x00u64 } else { 0xa0 };
            s.push(r.status(&[("result_code", vcore::codec::Val::Int(own)), ("amount", vcore::codec::Val::Int(958))], "status-ahead-of-abort"));
        }
        if paced {
            s.push(Step::Delay(gap));
        }
        s.push(match request {
            "PartialReversal" | "PreAuthReversal" | "EndOfDay" => r.reversal_abort(code, receipt_field),
            _ => r.abort(code),
        });
        Some(s)
    });
    let mut trace = vec![];
    let mut result = None;
    {
        let sc = Scenario::new(sh.clone(), hook);
        let mut cfg = base_config();
        if site.id_differs {
            cfg.terminal_id = "00000042".into();
        }
        match sc.new_feig(cfg) {
            Err(e) => trace.push(e),
            Ok(mut feig) => {
                for p in &site.pre {
                    let r = sc.run(&mut feig, p);
                    trace.push(format!("{} -> {}", p.label(), r.short()));
                }
                if site.dangling {
                    sc.sim.w.borrow_mut().t.dangling = Some(7);
                }
                if site.id_differs {
                    sc.sim.w.borrow_mut().t.terminal_id = "99999999".into();
                }
                *armed.borrow_mut() = true;
                let r0 = sc.sim.w.borrow().t.reqs.len();
                let r = sc.run(&mut feig, &site.op);
                acc.count("transitions", (site.pre.len() + 1) as u64);
                trace.push(format!(
                    "{} -> {} | requests: [{}]",
                    site.op.label(),
                    r.short(),
                    sc.sim.w.borrow().t.reqs[r0..].iter().map(|q| q.key.clone()).collect::<Vec<_>>().join(", ")
                ));
                if *hit.borrow() == 0 {
                    trace.push("MACHINERY: the exchange to abort was never reached".into());
                } else {
                    result = Some(r);
                }
                drop(feig);
            }
        }
        drop(sc);
    }
    drop(sh);
    (result, trace)
}

pub fn run(run: &RunInfo) -> Summary {
    let all = sites();
    let mut work: Vec<(usize, u8)> = vec![];
    for si in 0..all.len() {
        for c in 0..=255u8 {
            work.push((si, c));
        }
    }
    let mut acc = par_for(work.len(), |ix, acc| {
        let (si, code) = work[ix];
        let site = &all[si];
        // shapes of the abort packet: plain, and (where the packet type has the field) carrying a
        // receipt number field with the 'none' marker FFFF or an ordinary number
        let shapes: Vec<Option<u32>> = if ["PartialReversal", "PreAuthReversal", "EndOfDay"].contains(&site.request) { vec![None, Some(0xffff), Some(17)] } else { vec![None] };
        let status_in_set = ["Reservation", "PartialReversal", "PreAuthReversal", "EndOfDay"].contains(&site.request);
        let top = if status_in_set && site.max_inter == 2 { 4 } else { site.max_inter };
        let mut variants: Vec<(usize, Option<u32>, bool)> = (0..=top).flat_map(|i| shapes.iter().map(move |s| (i, *s, false))).collect();
        if top >= 2 {
            variants.push((2, None, true));
        }
        for (inter, shape, paced) in variants {
            if shape.is_some() && inter > 0 {
                continue;
            }
            let key = format!("c20/abort-at={}/code={code:02X}/intermediates={inter}/receipt-field={shape:?}{}", site.name, if paced { "/paced" } else { "" });
            if skip_for_replay(run, &key) {
                continue;
            }
            if paced {
                acc.count("w_paced", 1);
            }
            let (res, trace) = run_case(site, code, inter, shape, paced, acc);
            acc.count("executions", 1);
            let Some(res) = res else {
                acc.count("unreached", 1);
                acc.violation(viol(format!("{key}/unreached"), format!("the abort site was not reached:\n  {}", trace.join("\n  ")), 0));
                continue;
            };
            let w = want(site, code);
            let hex_text = format!("0x{code:X}");
            let problem: Option<String> = match (&w, &res) {
                (Want::Tolerated, r) if r.is_ok() => None,
                // a tolerated refusal may still be followed by an unrelated failure-free continuation only
                (Want::Tolerated, r) => Some(format!("this result code is documented as tolerated here: the call must carry on and succeed, got {}", r.short())),
                (Want::NoCard, OpResult::Card(Err((ErrClass::NoCardPresented, _)))) => None,
                (Want::NoCard, r) => Some(format!("time-out while reading a card means 'no card presented', got {}", r.short())),
                (Want::NeedsPin, OpResult::Unit(Err((ErrClass::NeedsPinEntry, _)))) => None,
                (Want::NeedsPin, r) => Some(format!("'device missing' during a reservation means a PIN is required, got {}", r.short())),
                (Want::FailsIdentifying, r) => match r.err() {
                    None => Some(format!("the terminal aborted with {hex_text}: the call must fail, got {}", r.short())),
                    Some((ErrClass::Aborted(c), _)) if *c == code => None,
                    Some((ErrClass::NoCardPresented, _)) | Some((ErrClass::NeedsPinEntry, _)) => Some(format!("{hex_text} is not one of the documented translations, got {}", r.short())),
                    Some((_, text)) => {
                        let by_number = text.contains(&hex_text) || text.contains(&format!("0x{code:x}"));
                        let by_message = site.request == "ReadCard" && message_of(code).map(|m| text.contains(m)).unwrap_or(false);
                        if by_number || by_message {
                            None
                        } else {
                            Some(format!("the error does not identify result code {hex_text}{}: {}", message_of(code).map(|m| format!(" ({m})")).unwrap_or_default(), r.short()))
                        }
                    }
                },
            };
            acc.set("outcomes", h64(&(site.name, res.short())));
            match w {
                Want::FailsIdentifying => acc.count("w_identified", 1),
                _ => acc.count("w_translated", 1),
            }
            if let Some(p) = problem {
                acc.violation(viol(key, format!("abort with result code {hex_text} in exchange {} ({:?}) after {} \n{p}\ntrace:\n  {}", site.name, site.xch, match inter { 3 => "a status information with result code 00".to_string(), 4 => "a status information with result code A0".to_string(), n => format!("{n} intermediate packets") }, trace.join("\n  ")), code as u64));
            }
        }
    });
    if acc.get("w_identified") > 0 {
        acc.witness("aborts were reported with their code");
    }
    if acc.get("w_translated") > 0 {
        acc.witness("the documented translations were exercised");
    }
    acc.sample(json!({"site": "commit/end-of-day", "code": "0x6C", "intermediates": 1, "expected": "Err(Aborted(108))"}));
    acc.sample(json!({"site": "read_card", "code": "0x6C", "expected": "Err(NoCardPresented)"}));
    let execs = acc.get("executions");
    acc.count("evaluations", execs);
    Summary {
        states: acc.set_len("outcomes"),
        transitions: acc.get("transitions"),
        traces_validated: execs,
        distinct_nontrivial: acc.set_len("outcomes"),
        rule: format!("real Feig client against the simulated terminal: all 256 result codes x {} abort sites (read card; reservation; the partial reversal of commit; the reversal of cancel; pending query, dangling reversal and end-of-day of the clean-up of commit, cancel and configure; system info, set-terminal-id and initialisation of configure) x abort after 0, 1 and 2 intermediate packets where the reply set allows them, after 2 intermediate packets with every packet a second inside the per-packet time-out after the previous one (the exchange lasts longer than one time-out), and after a status information carrying a result code of its own (00, A0), the abort packet plain and (for the reversal-type aborts) carrying a receipt-number field with FFFF or an ordinary number. The call must fail with Aborted(code), or an error text naming 0x<code> or (read card) the chapter-10 message of the code; the only renamings/successes are 6C at read card, FC at reservation, A0 at end-of-day and the query's own reply code B8", all.len()),
        exhaustive: true,
        required_witnesses: vec!["aborts were reported with their code".into(), "the documented translations were exercised".into()],
        assumptions: vec![
            "an abort inside the reconnect handshake is a failed connection (C09), not an abort of the caller's operation".into(),
            "B8 in the pending query is the query's specified reply (ZVT 2.10.1), not an abort of the operation".into(),
            "message table copied from the pinned constants.rs (errmsgs.rs)".into(),
        ],
        bounds: json!({"codes": 256, "sites": all.len(), "intermediates": "0..=2"}),
        caps_hit: vec![],
        evaluations_counter: "evaluations".into(),
        acc,
    }
}
