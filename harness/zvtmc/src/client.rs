//! Shared pieces of the client-level checks (C07-C10, C18-C20): operations, the reference
//! client model of DESIGN.md 5.5, classification of exchanges and of errors, expected requests.
use crate::simterm::*;
use std::collections::BTreeMap;
use vcore::codec::*;
use vcore::layout::*;
use zvt_feig_terminal::config::Config;
use zvt_feig_terminal::feig::{CardInfo, Error as FeigError, Feig, TransactionSummary};

#[derive(Clone, Debug, PartialEq)]
pub enum Op {
    Begin(String),
    Commit(String, u64),
    Cancel(String),
    ReadCard,
    Configure,
}

impl Op {
    pub fn label(&self) -> String {
        match self {
            Op::Begin(t) => format!("begin({t})"),
            Op::Commit(t, a) => format!("commit({t},{a})"),
            Op::Cancel(t) => format!("cancel({t})"),
            Op::ReadCard => "read_card".into(),
            Op::Configure => "configure".into(),
        }
    }
}

/// The exchange a request belongs to (DESIGN.md Appendix C).
#[derive(Clone, Copy, Debug, PartialEq, Eq, Hash, PartialOrd, Ord)]
pub enum Xch {
    H1,
    H2,
    K1,
    K2,
    K3,
    P1,
    P2,
    P3,
    Main,
    Other,
}

/// Classifies requests in arrival order. `op` is the operation currently running.
#[derive(Default, Clone, Debug)]
pub struct Tracker {
    /// connections on which the identity check (first CVendFunctions) was seen
    cvend_seen: Vec<usize>,
    pub main_seen_in_op: usize,
    /// the clean-up of the running operation has begun (pending query seen)
    pub p1_seen_in_op: bool,
}

impl Tracker {
    pub fn new() -> Self {
        Tracker::default()
    }
    pub fn start_op(&mut self) {
        self.main_seen_in_op = 0;
        self.p1_seen_in_op = false;
    }
    pub fn classify(&mut self, table: &Table, op: &Op, req: &ReqRec) -> Xch {
        let x = match req.key.as_str() {
            "Registration" => Xch::H1,
            "feig::CVendFunctions" => {
                if self.cvend_seen.contains(&req.conn) {
                    Xch::K1
                } else {
                    self.cvend_seen.push(req.conn);
                    Xch::H2
                }
            }
            "SetTerminalId" => Xch::K2,
            "Initialization" => Xch::K3,
            "EndOfDay" => Xch::P3,
            "ReadCard" | "Reservation" => Xch::Main,
            "PartialReversal" => {
                let ty = table.get("PartialReversal");
                let r = req.val.as_ref().and_then(|v| v.field(ty, "receipt_no").inner().map(|x| x.int()));
                if r == Some(0xffff) {
                    Xch::P1
                } else {
                    Xch::Main
                }
            }
            // a reversal before the pending query of a cancel is the cancel itself
            "PreAuthReversal" => {
                if matches!(op, Op::Cancel(_)) && !self.p1_seen_in_op {
                    Xch::Main
                } else {
                    Xch::P2
                }
            }
            _ => Xch::Other,
        };
        if x == Xch::P1 {
            self.p1_seen_in_op = true;
        }
        if x == Xch::Main {
            self.main_seen_in_op += 1;
        }
        x
    }
}

// ------------------------------------------------------------------ errors

#[derive(Clone, Debug, PartialEq)]
pub enum ErrClass {
    ActiveTransaction,
    UnknownToken(String),
    NoCardPresented,
    NeedsPinEntry,
    UnexpectedPacket,
    Aborted(u8),
    Zvt(String),
    Other(String),
}

pub fn classify_err(e: &anyhow::Error) -> ErrClass {
    if let Some(fe) = e.downcast_ref::<FeigError>() {
        return match fe {
            FeigError::ActiveTransaction(_) => ErrClass::ActiveTransaction,
            FeigError::UnknownToken(t) => ErrClass::UnknownToken(t.clone()),
            FeigError::NoCardPresented => ErrClass::NoCardPresented,
            FeigError::NeedsPinEntry => ErrClass::NeedsPinEntry,
            FeigError::UnexpectedPacket => ErrClass::UnexpectedPacket,
        };
    }
    if let Some(z) = e.downcast_ref::<zvt::ZVTError>() {
        return match z {
            zvt::ZVTError::Aborted(c) => ErrClass::Aborted(*c),
            other => ErrClass::Zvt(format!("{other:?}")),
        };
    }
    ErrClass::Other(format!("{e}"))
}

#[derive(Debug)]
pub enum OpResult {
    Unit(Result<(), (ErrClass, String)>),
    Summary(Result<SummaryView, (ErrClass, String)>),
    Card(Result<CardView, (ErrClass, String)>),
    /// the call did not return within a virtual day
    Hung,
    Panicked(String),
}

#[derive(Clone, Debug, PartialEq)]
pub struct SummaryView {
    pub terminal_id: Option<String>,
    pub amount: Option<u64>,
    pub trace_number: Option<u64>,
    pub date: Option<String>,
    pub time: Option<String>,
}

#[derive(Clone, Debug, PartialEq)]
pub enum CardView {
    Bank,
    Membership(String),
}

impl OpResult {
    pub fn is_ok(&self) -> bool {
        matches!(self, OpResult::Unit(Ok(_)) | OpResult::Summary(Ok(_)) | OpResult::Card(Ok(_)))
    }
    pub fn err(&self) -> Option<&(ErrClass, String)> {
        match self {
            OpResult::Unit(Err(e)) | OpResult::Summary(Err(e)) | OpResult::Card(Err(e)) => Some(e),
            _ => None,
        }
    }
    pub fn short(&self) -> String {
        match self {
            OpResult::Unit(Ok(())) => "Ok(())".into(),
            OpResult::Summary(Ok(s)) => format!("Ok({s:?})"),
            OpResult::Card(Ok(c)) => format!("Ok({c:?})"),
            OpResult::Hung => "DID NOT RETURN within a virtual day".into(),
            OpResult::Panicked(p) => format!("PANICKED: {p}"),
            _ => {
                let (c, t) = self.err().unwrap();
                format!("Err({c:?}: {t})")
            }
        }
    }
}

fn conv<T>(r: anyhow::Result<T>) -> Result<T, (ErrClass, String)> {
    r.map_err(|e| (classify_err(&e), format!("{e:#}")))
}

pub fn run_op(sim: &Sim, feig: &mut Feig, op: &Op) -> OpResult {
    let r = vcore::report::guarded(|| match op {
        Op::Begin(t) => sim.call(feig.begin_transaction(t)).map(|r| OpResult::Unit(conv(r))),
        Op::Cancel(t) => sim.call(feig.cancel_transaction(t)).map(|r| OpResult::Unit(conv(r))),
        Op::Configure => sim.call(feig.configure()).map(|r| OpResult::Unit(conv(r))),
        Op::Commit(t, a) => sim.call(feig.commit_transaction(t, *a)).map(|r| {
            OpResult::Summary(conv(r).map(|s: TransactionSummary| SummaryView { terminal_id: s.terminal_id, amount: s.amount, trace_number: s.trace_number, date: s.date, time: s.time }))
        }),
        Op::ReadCard => sim.call(feig.read_card()).map(|r| {
            OpResult::Card(conv(r).map(|c| match c {
                CardInfo::Bank => CardView::Bank,
                CardInfo::MembershipCard(s) => CardView::Membership(s),
            }))
        }),
    });
    match r {
        Err(p) => OpResult::Panicked(p),
        Ok(None) => OpResult::Hung,
        Ok(Some(x)) => x,
    }
}

pub fn new_feig(sim: &Sim, cfg: Config) -> Result<Feig, String> {
    let r = vcore::report::guarded(|| sim.call(Feig::new(cfg)));
    match r {
        Err(p) => Err(format!("Feig::new panicked: {p}")),
        Ok(None) => Err("Feig::new did not return within a virtual day".into()),
        Ok(Some(Err(e))) => Err(format!("Feig::new failed: {e:#}")),
        Ok(Some(Ok(f))) => Ok(f),
    }
}

// ------------------------------------------------------------------ expected requests (5.5)

fn none_struct(ty: &TypeDef) -> Vec<Val> {
    ty.fields.iter().map(|f| if f.wrap == Wrap::Vec { Val::List(vec![]) } else { Val::None }).collect()
}

fn set(ty: &TypeDef, vals: &mut [Val], name: &str, v: Val) {
    let i = ty.fields.iter().position(|f| f.name == name).unwrap();
    vals[i] = if ty.fields[i].wrap == Wrap::Opt { Val::some(v) } else { v };
}

fn bmp60(token: &str) -> Val {
    // PreAuthData { bmp_data: Some(Bmp60 { bmp_prefix: "AC", bmp_data: token }) }
    Val::Struct(vec![Val::some(Val::Struct(vec![Val::Text("AC".into()), Val::Text(token.into())]))])
}

pub fn expect_reservation(table: &Table, cfg: &Config, token: &str) -> Val {
    let ty = table.get("Reservation");
    let mut v = none_struct(ty);
    set(ty, &mut v, "amount", Val::Int(cfg.feig_config.pre_authorization_amount as u64));
    set(ty, &mut v, "currency", Val::Int(cfg.feig_config.currency as u64));
    set(ty, &mut v, "payment_type", Val::Int(0x40));
    set(ty, &mut v, "tlv", bmp60(token));
    Val::Struct(v)
}

pub fn expect_partial_reversal(table: &Table, cfg: &Config, token: &str, receipt: u64, final_amount: u64) -> Val {
    let ty = table.get("PartialReversal");
    let mut v = none_struct(ty);
    let pre = cfg.feig_config.pre_authorization_amount as u64;
    set(ty, &mut v, "receipt_no", Val::Int(receipt));
    set(ty, &mut v, "amount", Val::Int(pre.saturating_sub(final_amount)));
    set(ty, &mut v, "payment_type", Val::Int(0x40));
    set(ty, &mut v, "currency", Val::Int(cfg.feig_config.currency as u64));
    set(ty, &mut v, "tlv", bmp60(token));
    Val::Struct(v)
}

pub fn expect_pending_query(table: &Table) -> Val {
    let ty = table.get("PartialReversal");
    let mut v = none_struct(ty);
    set(ty, &mut v, "receipt_no", Val::Int(0xffff));
    Val::Struct(v)
}

pub fn expect_preauth_reversal(table: &Table, cfg: &Config, receipt: u64) -> Val {
    let ty = table.get("PreAuthReversal");
    let mut v = none_struct(ty);
    set(ty, &mut v, "payment_type", Val::Int(0x40));
    set(ty, &mut v, "currency", Val::Int(cfg.feig_config.currency as u64));
    set(ty, &mut v, "receipt_no", Val::Int(receipt));
    Val::Struct(v)
}

pub fn expect_end_of_day(cfg: &Config) -> Val {
    Val::Struct(vec![Val::Int(cfg.feig_config.password as u64)])
}

pub fn expect_registration(cfg: &Config) -> Val {
    // Registration { password, config_byte 0xDE, currency Some(cfg), tlv None }
    Val::Struct(vec![Val::Int(cfg.feig_config.password as u64), Val::Int(0xde), Val::some(Val::Int(cfg.feig_config.currency as u64)), Val::None])
}

pub fn expect_system_info_request() -> Val {
    // CVendFunctions { password: None, instr: 1 }
    Val::Struct(vec![Val::None, Val::Int(1)])
}

/// value at a dotted field path of a decoded request (Options on the way are unwrapped);
/// None if the request is undecodable, Some(Val::None) if the field is absent
pub fn get_path(table: &Table, key: &str, v: &Option<Val>, path: &str) -> Option<Val> {
    let mut ty = table.types.get(key)?;
    let mut cur: Val = v.clone()?;
    for part in path.split('.') {
        let i = ty.fields.iter().position(|f| f.name == part)?;
        let f = &ty.fields[i];
        let mut next = cur.fields().get(i)?.clone();
        if let Val::Some(b) = next {
            next = *b;
        }
        if let Enc::Nested(n) = &f.enc {
            ty = table.types.get(n)?;
        }
        cur = next;
        if cur == Val::None {
            return Some(Val::None);
        }
    }
    Some(cur)
}

/// Compares only the fields the statements name. Returns the mismatches.
pub fn named_fields_differ(table: &Table, key: &str, req: Option<&ReqRec>, want: &[(&str, Val)]) -> Vec<String> {
    let Some(req) = req else { return vec![format!("no {key} request was sent")] };
    if req.key != key {
        return vec![format!("expected a {key} request, got {}", req.key)];
    }
    let mut out = vec![];
    for (path, w) in want {
        let got = get_path(table, key, &req.val, path);
        if got.as_ref() != Some(w) {
            out.push(format!("{key}.{path} is {} (expected {w:?})", got.map(|g| format!("{g:?}")).unwrap_or("(undecodable)".into())));
        }
    }
    out
}

pub const TOKEN_PATH: &str = "tlv.bmp_data.bmp_data";

pub fn want_reservation(cfg: &Config, token: &str) -> Vec<(&'static str, Val)> {
    vec![("amount", Val::Int(cfg.feig_config.pre_authorization_amount as u64)), ("currency", Val::Int(cfg.feig_config.currency as u64)), (TOKEN_PATH, Val::Text(token.into()))]
}

pub fn want_partial_reversal(cfg: &Config, token: &str, receipt: u64, final_amount: u64) -> Vec<(&'static str, Val)> {
    let pre = cfg.feig_config.pre_authorization_amount as u64;
    vec![("receipt_no", Val::Int(receipt)), ("amount", Val::Int(pre.saturating_sub(final_amount))), ("currency", Val::Int(cfg.feig_config.currency as u64)), (TOKEN_PATH, Val::Text(token.into()))]
}

pub fn show_req(table: &Table, key: &str, v: &Option<Val>) -> String {
    match v {
        Some(v) if table.types.contains_key(key) => Codec::new(table).debug_string(table.get(key), v),
        _ => "(undecodable)".into(),
    }
}

/// The reference client model: a map from tokens to receipt numbers.
#[derive(Clone, Debug, Default, PartialEq)]
pub struct Model {
    pub open: BTreeMap<String, u64>,
    pub max: usize,
}
