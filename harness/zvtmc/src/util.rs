//! Small helpers shared by the property harnesses.
use serde_json::json;
use vcore::report::*;

pub fn viol(key: String, detail: String, rank: u64) -> Violation {
    let replay = json!({ "key": key });
    Violation { key, detail, replay, rank }
}

/// `true` when this run is a replay of another harness family than `prefix` (then the sub-harness
/// can be skipped).
pub fn skip_for_replay(run: &RunInfo, prefix: &str) -> bool {
    match &run.replay_only {
        Some(r) => !r["key"].as_str().unwrap_or("").starts_with(prefix),
        None => false,
    }
}
