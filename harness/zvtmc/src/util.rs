//! Small helpers shared by the property harnesses.
use serde_json::json;
use vcore::report::*;

pub fn viol(key: String, detail: String, rank: u64) -> Violation {
    let replay = json!({ "key": key });
    Violation { key, detail, replay, rank }
}

/// `true` when this run is a replay of another harness family than `prefix` (then the sub-harness
/// can be skipped).
pub fn skip_for_replay(run: &RunInfo, prefix: &str) -> bool {
    match &run.replay_only {
        Some(r) => !r["key"].as_str().unwrap_or("").starts_with(prefix),
        None => false,
    }
}


/// A `log` sink that formats every record (so that the arguments of every logging statement on the
/// paths explored are evaluated, as they are in a deployment with a logger installed) and discards
/// the text. Installed once per process; switched on and off with the global level filter.
struct EvalLogger;
impl log::Log for EvalLogger {
    fn enabled(&self, _m: &log::Metadata) -> bool {
        true
    }
    fn log(&self, r: &log::Record) {
        use std::fmt::Write;
        thread_local! { static SINK: std::cell::RefCell<String> = std::cell::RefCell::new(String::new()); }
        SINK.with(|s| {
            if let Ok(mut s) = s.try_borrow_mut() {
                s.clear();
                let _ = write!(s, "{}", r.args());
            }
        });
    }
    fn flush(&self) {}
}
static EVAL_LOGGER: EvalLogger = EvalLogger;
pub fn logging(on: bool) {
    let _ = log::set_logger(&EVAL_LOGGER);
    log::set_max_level(if on { log::LevelFilter::Trace } else { log::LevelFilter::Off });
}
