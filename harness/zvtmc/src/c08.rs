//! C08 - commit releases exactly the unused part of the pre-authorisation.
use crate::client::*;
use crate::scen::*;
use crate::sim::Sh;
use crate::simterm::*;
use crate::util::*;
use serde_json::json;
use std::cell::RefCell;
use std::rc::Rc;
use vcore::codec::Val;
use vcore::dbx::Ctx;
use vcore::report::*;

#[derive(Clone, Debug)]
struct Case {
    pre: u64,
    fin: u64,
    currency: u64,
    token: String,
    receipt: u64,
    /// reported by the terminal in the commit's status information (None = field absent)
    amount: Option<u64>,
    trace: Option<u64>,
    date: Option<u64>,
    time: Option<u64>,
    terminal_id: Option<u64>,
    /// Some(r1): the first reservation attempt reports receipt r1 and then the connection is lost
    /// before the completion; the client repeats the reservation, which gets `receipt`
    lost_first_receipt: Option<u64>,
    /// Some(code): the configuration is written the way users write it (JSON with the alphabetic
    /// ISO 4217 code); `currency` is then the numeric code ISO 4217 assigns to it
    currency_code: Option<&'static str>,
    /// the end-of-day that follows the commit reports the day's totals in status informations
    eod_totals: bool,
    /// Some((first has a receipt number, last has one, connection lost in between)): the terminal
    /// reports twice during the commit, first other values, last the case's values. With `lost` the
    /// first report belongs to an attempt whose connection breaks before the completion and the
    /// last to the re-sent command. What the terminal reported is its last report.
    two_reports: Option<(bool, bool, bool)>,
}

fn run_case(c: &Case, acc: &mut Acc) -> Vec<String> {
    let table = vcore::layout::shipped_static();
    let mut ctx = Ctx::new(vec![], vec![], 0);
    let sh: Sh = Rc::new(RefCell::new(std::mem::replace(&mut ctx, Ctx::new(vec![], vec![], 0))));
    let cc = c.clone();
    let hook: Hook = Box::new(move |t, _ctx, req, x, nth| {
        let r = Replies { table: t.table };
        match (x, req.key.as_str()) {
            (Xch::Main, "Reservation") if nth == 0 && cc.lost_first_receipt.is_some() => Some(vec![
                r.ack(),
                r.intermediate(0x17),
                r.status(&[("result_code", Val::Int(0)), ("receipt_no", Val::Int(cc.lost_first_receipt.unwrap())), ("amount", Val::Int(cc.pre.min(999_999_999_999)))], "status"),
                Step::Close,
            ]),
            (Xch::Main, "Reservation") => Some(vec![
                r.ack(),
                r.intermediate(0x17),
                r.status(&[("result_code", Val::Int(0)), ("receipt_no", Val::Int(cc.receipt)), ("amount", Val::Int(cc.pre.min(999_999_999_999)))], "status"),
                r.completion(),
            ]),
            (Xch::Main, "PartialReversal") => {
                let mut f: Vec<(&str, Val)> = vec![("result_code", Val::Int(0))];
                for (n, v) in [("amount", cc.amount), ("trace_number", cc.trace), ("date", cc.date), ("time", cc.time), ("terminal_id", cc.terminal_id)] {
                    if let Some(v) = v {
                        f.push((n, Val::Int(v)));
                    }
                }
                if let Some((first_rc, last_rc, lost)) = cc.two_reports {
                    let mut g: Vec<(&str, Val)> = vec![("result_code", Val::Int(0))];
                    for (n, v) in [("amount", cc.amount.map(|v| v + 1205).or(Some(7))), ("trace_number", cc.trace.map(|v| v + 1).or(Some(8))), ("date", Some(1231)), ("time", Some(235_959)), ("terminal_id", Some(11_111_111))] {
                        if let Some(v) = v {
                            g.push((n, Val::Int(v)));
                        }
                    }
                    if first_rc {
                        g.push(("receipt_no", Val::Int(cc.receipt)));
                    }
                    if last_rc {
                        f.push(("receipt_no", Val::Int(cc.receipt)));
                    }
                    if lost && nth == 0 {
                        return Some(vec![r.ack(), r.intermediate(0x17), r.status(&g, "status-first-attempt"), Step::Close]);
                    }
                    if lost {
                        return Some(vec![r.ack(), r.intermediate(0x17), r.status(&f, "status"), r.completion()]);
                    }
                    return Some(vec![r.ack(), r.intermediate(0x17), r.status(&g, "status-earlier"), r.intermediate(0x17), r.status(&f, "status"), r.completion()]);
                }
                Some(vec![r.ack(), r.intermediate(0x17), r.status(&f, "status"), r.completion()])
            }
            (Xch::P3, "EndOfDay") if cc.eod_totals => Some(vec![
                r.ack(),
                r.intermediate(0x17),
                r.status(&[("result_code", Val::Int(0)), ("amount", Val::Int(95_800)), ("trace_number", Val::Int(1)), ("date", Val::Int(101)), ("time", Val::Int(1)), ("terminal_id", Val::Int(1))], "end-of-day-totals"),
                r.print_line("TOTAL 958,00"),
                r.status(&[("result_code", Val::Int(0)), ("amount", Val::Int(0))], "end-of-day-totals-2"),
                r.completion(),
            ]),
            _ => None,
        }
    });
    let mut problems = vec![];
    {
        let sc = Scenario::new(sh.clone(), hook);
        let mut cfg = base_config();
        cfg.feig_config.pre_authorization_amount = c.pre as usize;
        cfg.feig_config.currency = c.currency as usize;
        let mut real_cfg = cfg.clone();
        if let Some(code) = c.currency_code {
            let txt = format!(r#"{{"currency":"{code}","pre_authorization_amount":{},"read_card_timeout":{},"password":{}}}"#, c.pre, cfg.feig_config.read_card_timeout, cfg.feig_config.password);
            match serde_json::from_str::<zvt_feig_terminal::config::FeigConfig>(&txt) {
                Ok(fc) => {
                    real_cfg.feig_config = fc;
                    acc.count("w_config_from_json", 1);
                }
                Err(_) => {
                    // a code this version does not know: nothing to compare
                    acc.count("config_code_not_accepted", 1);
                    return vec![];
                }
            }
        }
        match sc.new_feig(real_cfg) {
            Err(e) => problems.push(e),
            Ok(mut feig) => {
                let r0 = sc.sim.w.borrow().t.reqs.len();
                let b = sc.run(&mut feig, &Op::Begin(c.token.clone()));
                acc.count("transitions", 2);
                if !b.is_ok() {
                    problems.push(format!("begin failed: {}", b.short()));
                } else {
                    let reqs = sc.sim.w.borrow().t.reqs[r0..].to_vec();
                    let reservations: Vec<&ReqRec> = reqs.iter().filter(|r| r.key == "Reservation").collect();
                    let expected_attempts = if c.lost_first_receipt.is_some() { 2 } else { 1 };
                    let mut diff = named_fields_differ(table, "Reservation", reservations.last().copied(), &want_reservation(&cfg, &c.token));
                    if let Some(first) = reservations.first() {
                        diff.extend(named_fields_differ(table, "Reservation", Some(*first), &want_reservation(&cfg, &c.token)));
                    }
                    if reservations.len() != expected_attempts || !diff.is_empty() {
                        problems.push(format!(
                            "the reservation must be requested for the configured amount and currency with the token as reference: {}; got [{}]",
                            diff.join("; "),
                            reqs.iter().map(|r| show_req(table, &r.key, &r.val)).collect::<Vec<_>>().join("; ")
                        ));
                    }
                    let r1 = sc.sim.w.borrow().t.reqs.len();
                    let res = sc.run(&mut feig, &Op::Commit(c.token.clone(), c.fin));
                    let reqs = sc.sim.w.borrow().t.reqs[r1..].to_vec();
                    let want = expect_partial_reversal(table, &cfg, &c.token, c.receipt, c.fin);
                    let main: Vec<&ReqRec> = reqs.iter().filter(|r| r.key == "PartialReversal").take(1).collect();
                    let diff = named_fields_differ(table, "PartialReversal", main.first().copied(), &want_partial_reversal(&cfg, &c.token, c.receipt, c.fin));
                    if !diff.is_empty() {
                        problems.push(format!(
                            "commit of {} against a pre-authorisation of {}: expected the release of exactly {} in currency {} against receipt {} and token {:?}: {}\n    model    {}\n    got      [{}]",
                            c.fin,
                            c.pre,
                            c.pre.saturating_sub(c.fin),
                            c.currency,
                            c.receipt,
                            c.token,
                            diff.join("; "),
                            show_req(table, "PartialReversal", &Some(want)),
                            reqs.iter().map(|r| show_req(table, &r.key, &r.val)).collect::<Vec<_>>().join("; ")
                        ));
                    }
                    match &res {
                        OpResult::Summary(Ok(s)) => {
                            let want_date = c.date.map(|d| format!("{:04}", d));
                            let want_time = c.time.map(|d| format!("{:06}", d));
                            let tid_ok = match (&s.terminal_id, c.terminal_id) {
                                (None, None) => true,
                                (Some(a), Some(b)) => a.trim().parse::<u64>().ok() == Some(b),
                                _ => false,
                            };
                            if s.amount != c.amount || s.trace_number != c.trace || s.date != want_date || s.time != want_time || !tid_ok {
                                problems.push(format!(
                                    "the summary must reproduce what the terminal reported (amount {:?}, trace {:?}, date {:?}, time {:?}, terminal id {:?}), got {s:?}",
                                    c.amount, c.trace, want_date, want_time, c.terminal_id
                                ));
                            }
                        }
                        other => problems.push(format!("commit failed: {}", other.short())),
                    }
                }
                drop(feig);
            }
        }
        drop(sc);
    }
    drop(sh);
    problems
}

pub fn run(run: &RunInfo) -> Summary {
    let thorough = run.thorough();
    let mut cases: Vec<Case> = vec![];
    let base = Case { pre: 2500, fin: 0, currency: 978, token: "384HH2".into(), receipt: 231, amount: Some(1295), trace: Some(975), date: Some(405), time: Some(225558), terminal_id: Some(52523535), lost_first_receipt: None, currency_code: None, eod_totals: false, two_reports: None };
    // all small pairs and the boundary grid
    let mut pres: Vec<u64> = (0..=24).collect();
    pres.extend([2500, 1_000_000, 999_999_999_999]);
    for &pre in &pres {
        let mut fins: Vec<u64> = (0..=26).collect();
        fins.extend([pre.saturating_sub(1), pre, pre + 1, pre.saturating_mul(2), 1 << 32, (1 << 63) - 1, 1 << 63, (1 << 63) + 1, (1u64 << 63) + pre, u64::MAX - 1_000_000, u64::MAX - 1, u64::MAX]);
        fins.sort();
        fins.dedup();
        for fin in fins {
            for currency in [752u64, 826, 978] {
                if currency != 978 && !(pre <= 3 || pre >= 2500) && !thorough {
                    continue;
                }
                cases.push(Case { pre, fin, currency, ..base.clone() });
            }
        }
    }
    // configurations written with the alphabetic currency code (any letter case): the requests must
    // carry the numeric code ISO 4217 assigns to it (pinned excerpt of the standard)
    for (code, num) in [("EUR", 978u64), ("GBP", 826), ("SEK", 752), ("eur", 978), ("Gbp", 826), ("sek", 752), ("CHF", 756), ("USD", 840), ("NOK", 578), ("DKK", 208), ("PLN", 985), ("CZK", 203)] {
        for (pre, fin) in [(2500u64, 1295u64), (0, 0)] {
            cases.push(Case { pre, fin, currency: num, currency_code: Some(code), ..base.clone() });
        }
    }
    // the terminal reports twice during the commit (in one exchange, or once on an attempt that loses
    // its connection and once on the re-sent command), with and without a receipt number in either
    for first_rc in [false, true] {
        for last_rc in [false, true] {
            for lost in [false, true] {
                for (a, tr) in [(Some(1295u64), Some(975u64)), (None, None), (Some(0), Some(0))] {
                    cases.push(Case { amount: a, trace: tr, two_reports: Some((first_rc, last_rc, lost)), ..base.clone() });
                    cases.push(Case { fin: 1295, amount: a, trace: tr, terminal_id: None, date: None, two_reports: Some((first_rc, last_rc, lost)), ..base.clone() });
                }
            }
        }
    }
    // the end-of-day that follows the commit reports totals of its own: the summary is the commit's
    for (pre, fin) in [(2500u64, 1295u64), (2500, 0), (2500, 2500), (0, 0)] {
        for (a, tr) in [(Some(1295u64), Some(975u64)), (None, None), (Some(0), Some(0))] {
            cases.push(Case { pre, fin, amount: a, trace: tr, eod_totals: true, ..base.clone() });
        }
    }
    // tokens and receipt numbers
    // incl. tokens with blanks at either end, blanks only, tabs, the CP437 no-break space, mixed case
    let tokens = ["A", "384HH2", "ABCDEFGHIJKLMN", "", "\u{c4}\u{d6}\u{dc}\u{df}\u{a5}", " A1B2C3", "A1B2C3 ", "  ", "\tX\r", "\u{a0}Q\u{a0}", "aBc", "0007", "A B"];
    for t in tokens {
        for receipt in [1u64, 231, 9999] {
            for (pre, fin) in [(2500u64, 1295u64), (2500, 2500), (2500, 9999), (0, 0)] {
                cases.push(Case { pre, fin, token: t.into(), receipt, ..base.clone() });
            }
        }
    }
    // the reservation is repeated after a lost connection: the commit must name the receipt number of the
    // reservation that completed, whatever the relation between the two numbers
    for (r1, r2) in [(17u64, 18u64), (18, 17), (9999, 1), (1, 9999), (231, 231), (5000, 4999)] {
        for (pre, fin) in [(2500u64, 1295u64), (2500, 0), (0, 0)] {
            cases.push(Case { pre, fin, receipt: r2, lost_first_receipt: Some(r1), ..base.clone() });
        }
    }
    // status fields over their alphabets, incl. leading-zero cases and absent fields
    let amounts = [None, Some(0u64), Some(1), Some(2500), Some(999_999_999_999)];
    let traces = [None, Some(0u64), Some(1), Some(975), Some(999_999)];
    let dates = [None, Some(101u64), Some(405), Some(1231), Some(5)];
    let times = [None, Some(0u64), Some(507), Some(225558), Some(235959)];
    let tids = [None, Some(1u64), Some(52523535), Some(99_999_999)];
    for a in amounts {
        for tr in traces {
            for d in dates {
                for ti in times {
                    for id in tids {
                        cases.push(Case { amount: a, trace: tr, date: d, time: ti, terminal_id: id, ..base.clone() });
                    }
                }
            }
        }
    }
    let mut acc = par_for(cases.len(), |ix, acc| {
        let c = &cases[ix];
        let key = format!("c08/pre={}/final={}/cur={}{}{}/token={:?}/receipt={}/lost-first={:?}/status={:?},{:?},{:?},{:?},{:?}", c.pre, c.fin, c.currency, c.currency_code.map(|x| format!("(configured as {x:?})")).unwrap_or_default(), format!("{}{}", if c.eod_totals { "/end-of-day-reports-totals" } else { "" }, c.two_reports.map(|t| format!("/two-reports={t:?}")).unwrap_or_default()), c.token, c.receipt, c.lost_first_receipt, c.amount, c.trace, c.date, c.time, c.terminal_id);
        if skip_for_replay(run, &key) {
            return;
        }
        let problems = run_case(c, acc);
        acc.count("executions", 1);
        acc.set("cases", h64(&key));
        if c.fin > c.pre {
            acc.count("w_final_above_pre", 1);
        }
        if c.fin >= 1 << 63 {
            acc.count("w_final_above_i64", 1);
        }
        if !problems.is_empty() {
            acc.violation(viol(key, format!("{c:?}\n{}", problems.join("\n")), c.fin.min(1 << 40)));
        }
    });
    if acc.get("w_final_above_pre") > 0 {
        acc.witness("final amount above the pre-authorisation (release must be zero)");
    }
    if acc.get("w_config_from_json") > 0 {
        acc.witness("a configuration written with the alphabetic currency code was used");
    }
    if acc.get("w_final_above_i64") > 0 {
        acc.witness("final amount at and above 2^63");
    }
    acc.sample(json!({"pre": 2500, "final": 1295, "expected_release": 1205, "currency": 978, "receipt": 231, "token": "384HH2"}));
    acc.sample(json!({"pre": 2500, "final": "u64::MAX", "expected_release": 0}));
    let execs = acc.get("executions");
    acc.count("evaluations", execs);
    Summary {
        states: acc.set_len("cases"),
        transitions: acc.get("transitions"),
        traces_validated: execs,
        distinct_nontrivial: acc.set_len("cases"),
        rule: "real Feig client (begin; commit) against the simulated terminal for: all pairs pre-authorisation 0..=24 x final 0..=26 and the boundary grid pre in {2500, 10^6, 10^12-1} x final in {pre-1, pre, pre+1, 2 pre, 2^32, 2^63-1, 2^63, 2^63+1, 2^63+pre, u64::MAX-10^6, u64::MAX-1, u64::MAX} x currencies {752, 826, 978}; 13 tokens (incl. empty, upper CP437 half, blanks / tabs / no-break space at either end, mixed case, leading zeros) x receipt numbers {1, 231, 9999}; configurations parsed from JSON with the alphabetic ISO 4217 code in any letter case (12 spellings; codes this version does not accept are skipped) against a pinned excerpt of the standard; commits whose end-of-day reports the day's totals in status informations of its own; reservations repeated after a lost connection with the first attempt's receipt number above, below and equal to the final one; the product of the alphabets of the five reported status fields incl. absent and leading-zero values; commits during which the terminal reports twice (in one exchange, or on an attempt that loses its connection and on the re-sent command) with / without a receipt number in either report: the summary is the last report. Requests are decoded by the reference codec and compared with the reference model; the summary with the reported values".into(),
        exhaustive: true,
        required_witnesses: vec!["final amount above the pre-authorisation (release must be zero)".into(), "final amount at and above 2^63".into(), "a configuration written with the alphabetic currency code was used".into()],
        assumptions: vec!["pre-authorisation amounts >= 10^12 do not fit the 12-digit field and are outside the domain".into(), "the textual padding of the terminal id is not fixed by the statement (compared numerically)".into(), "where the terminal reports more than once during a commit, 'what the terminal reported' is read as its last report (the only reading under which the sentence defines one summary)".into()],
        bounds: json!({"cases": cases.len()}),
        caps_hit: vec![],
        evaluations_counter: "evaluations".into(),
        acc,
    }
}
