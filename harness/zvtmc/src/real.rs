//! Bridge to the real types: one registry entry per shipped packet / container type and per
//! reply enum, built from the public generic API only.
use std::fmt::Debug;
use zvt::{encoding, feig, io, packets, sequences, ZVTError, ZvtParser, ZvtSerializer};

pub struct Decoded {
    pub debug: String,
    pub rest_len: usize,
    pub reenc: Vec<u8>,
    /// decode(encode(x)) == x by the type's own PartialEq
    pub rt_equal: bool,
    pub rt_rest: usize,
    pub rt_err: Option<String>,
}

pub struct RealType {
    pub key: &'static str,
    pub decode_full: fn(&[u8]) -> Result<Decoded, ZVTError>,
    /// (Debug string, remainder length, offset of the remainder inside the input)
    pub decode: fn(&[u8]) -> Result<(String, usize, usize), ZVTError>,
    /// decode without formatting (totality sweeps): (remainder length, offset of the remainder)
    pub decode_quiet: fn(&[u8]) -> Result<(usize, usize), ZVTError>,
}

fn decode_full<T>(b: &[u8]) -> Result<Decoded, ZVTError>
where
    T: ZvtSerializer + Debug + PartialEq,
    encoding::Default: encoding::Encoding<T>,
{
    let (x, rest) = T::zvt_deserialize(b)?;
    let reenc = x.zvt_serialize();
    let (rt_equal, rt_rest, rt_err) = match T::zvt_deserialize(&reenc) {
        Ok((y, r)) => (y == x, r.len(), None),
        Err(e) => (false, 0, Some(format!("{e:?}"))),
    };
    Ok(Decoded { debug: format!("{x:?}"), rest_len: rest.len(), reenc, rt_equal, rt_rest, rt_err })
}

/// offset of `rest` inside `b` (usize::MAX if it does not lie inside the input; an empty
/// remainder has no meaningful address and is placed at the end)
fn offset_in(b: &[u8], rest: &[u8]) -> usize {
    if rest.is_empty() {
        return b.len();
    }
    let (bp, rp) = (b.as_ptr() as usize, rest.as_ptr() as usize);
    if rp >= bp && rp + rest.len() <= bp + b.len() {
        rp - bp
    } else {
        usize::MAX
    }
}

fn decode<T>(b: &[u8]) -> Result<(String, usize, usize), ZVTError>
where
    T: ZvtSerializer + Debug,
    encoding::Default: encoding::Encoding<T>,
{
    let (x, rest) = T::zvt_deserialize(b)?;
    Ok((format!("{x:?}"), rest.len(), offset_in(b, rest)))
}

fn decode_quiet<T>(b: &[u8]) -> Result<(usize, usize), ZVTError>
where
    T: ZvtSerializer,
    encoding::Default: encoding::Encoding<T>,
{
    let (_x, rest) = T::zvt_deserialize(b)?;
    Ok((rest.len(), offset_in(b, rest)))
}

macro_rules! reg {
    ($($key:literal => $ty:ty),* $(,)?) => {
        pub fn registry() -> Vec<RealType> {
            vec![$(RealType { key: $key, decode_full: decode_full::<$ty>, decode: decode::<$ty>, decode_quiet: decode_quiet::<$ty> }),*]
        }
    };
}

reg! {
    "SetTimeAndDate" => packets::SetTimeAndDate,
    "StatusInformation" => packets::StatusInformation,
    "IntermediateStatusInformation" => packets::IntermediateStatusInformation,
    "StatusEnquiry" => packets::StatusEnquiry,
    "Registration" => packets::Registration,
    "Authorization" => packets::Authorization,
    "CompletionData" => packets::CompletionData,
    "ReceiptPrintoutCompletion" => packets::ReceiptPrintoutCompletion,
    "ResetTerminal" => packets::ResetTerminal,
    "PrintSystemConfiguration" => packets::PrintSystemConfiguration,
    "SetTerminalId" => packets::SetTerminalId,
    "Abort" => packets::Abort,
    "ReservationAbort" => packets::ReservationAbort,
    "PartialReversalAbort" => packets::PartialReversalAbort,
    "Reservation" => packets::Reservation,
    "PartialReversal" => packets::PartialReversal,
    "PreAuthReversal" => packets::PreAuthReversal,
    "EndOfDay" => packets::EndOfDay,
    "Diagnosis" => packets::Diagnosis,
    "Initialization" => packets::Initialization,
    "ReadCard" => packets::ReadCard,
    "PrintLine" => packets::PrintLine,
    "PrintTextBlock" => packets::PrintTextBlock,
    "SelectLanguage" => packets::SelectLanguage,
    "Ack" => packets::Ack,
    "feig::RequestForData" => feig::packets::RequestForData,
    "feig::CVendFunctionsEnhancedSystemInformationCompletion" => feig::packets::CVendFunctionsEnhancedSystemInformationCompletion,
    "feig::WriteFile" => feig::packets::WriteFile,
    "feig::ChangeConfiguration" => feig::packets::ChangeConfiguration,
    "feig::CVendFunctions" => feig::packets::CVendFunctions,
    "feig::WriteData" => feig::packets::WriteData,
    "NumAndTotal" => packets::NumAndTotal,
    "SingleAmounts" => packets::SingleAmounts,
    "Subs" => packets::tlv::Subs,
    "SubsOnCard" => packets::tlv::SubsOnCard,
    "tlv::StatusInformation" => packets::tlv::StatusInformation,
    "tlv::StatusEnquiry" => packets::tlv::StatusEnquiry,
    "DeviceInformation" => packets::tlv::DeviceInformation,
    "tlv::ReceiptPrintoutCompletion" => packets::tlv::ReceiptPrintoutCompletion,
    "tlv::ReservationAbort" => packets::tlv::ReservationAbort,
    "Bmp60" => packets::tlv::Bmp60,
    "AuthData" => packets::tlv::AuthData,
    "PreAuthData" => packets::tlv::PreAuthData,
    "tlv::Diagnosis" => packets::tlv::Diagnosis,
    "tlv::ReadCard" => packets::tlv::ReadCard,
    "ZvtString" => packets::tlv::ZvtString,
    "TextLines" => packets::tlv::TextLines,
    "tlv::PrintTextBlock" => packets::tlv::PrintTextBlock,
    "tlv::Registration" => packets::tlv::Registration,
    "feig::tlv::File" => feig::packets::tlv::File,
    "feig::tlv::WriteData" => feig::packets::tlv::WriteData,
    "feig::tlv::WriteFile" => feig::packets::tlv::WriteFile,
    "feig::tlv::HostConfigurationData" => feig::packets::tlv::HostConfigurationData,
    "feig::tlv::SystemInformation" => feig::packets::tlv::SystemInformation,
    "feig::tlv::ChangeConfiguration" => feig::packets::tlv::ChangeConfiguration,
}

pub fn real_type(key: &str) -> RealType {
    registry().into_iter().find(|t| t.key == key).unwrap_or_else(|| panic!("no real type {key}"))
}

// ------------------------------------------------------------------ reply enums

pub struct RealEnum {
    pub key: &'static str,
    /// Debug string of the parsed value, e.g. `Abort(Abort { error: 108 })`
    pub parse: fn(&[u8]) -> Result<String, ZVTError>,
    pub parse_quiet: fn(&[u8]) -> Result<(), ZVTError>,
    /// reads `n` packets through the real transport from a scripted stream (chunking decided by
    /// the explorer); per packet Some(Ok(debug)) / Some(Err) / None when the reader blocked, and
    /// the stream offset after each read
    pub read: fn(crate::sim::Sh, &[u8], usize) -> Vec<(Option<Result<String, String>>, usize)>,
}

fn read_with<E: ZvtParser + Send>(sh: crate::sim::Sh, stream: &[u8], n: usize, show: fn(E) -> String) -> Vec<(Option<Result<String, String>>, usize)> {
    use crate::sim::*;
    let s = Scripted::new(sh, stream.to_vec(), Chunking::Deviations);
    s.st.borrow_mut().eof_at = Some(stream.len());
    let mut tr = io::PacketTransport { source: s.clone() };
    let mut out = vec![];
    for _ in 0..n {
        let r = vcore::report::guarded(|| {
            let mut fut = Box::pin(tr.read_packet::<E>());
            match drive(fut.as_mut()) {
                Driven::Done(Ok(p)) => Some(Ok(show(p))),
                Driven::Done(Err(e)) => Some(Err(format!("{e:?}"))),
                Driven::Blocked => None,
            }
        });
        match r {
            Ok(x) => {
                let stop = !matches!(x, Some(Ok(_)));
                out.push((x, s.consumed()));
                if stop {
                    break;
                }
            }
            Err(p) => {
                out.push((Some(Err(format!("PANIC: {p}"))), s.consumed()));
                break;
            }
        }
    }
    out
}

/// writes a command with `write_packet_with_ack` and lets the real transport read `reply` as its
/// acknowledgement: Some(true) accepted, Some(false) failed, None blocked; plus bytes consumed
pub fn command_acknowledged_by(reply: &[u8]) -> (Option<bool>, usize) {
    use crate::sim::*;
    let sh: Sh = std::rc::Rc::new(std::cell::RefCell::new(vcore::dbx::Ctx::new(vec![], vec![], 0)));
    let s = Scripted::new(sh, reply.to_vec(), Chunking::Greedy);
    let mut tr = io::PacketTransport { source: s.clone() };
    let r = {
        let mut fut = Box::pin(tr.write_packet_with_ack(&packets::EndOfDay { password: 0 }));
        match drive(fut.as_mut()) {
            Driven::Done(r) => Some(r.is_ok()),
            Driven::Blocked => None,
        }
    };
    (r, s.consumed())
}

fn read_dbg<E: ZvtParser + Debug + Send>(sh: crate::sim::Sh, stream: &[u8], n: usize) -> Vec<(Option<Result<String, String>>, usize)> {
    read_with::<E>(sh, stream, n, |p| format!("{p:?}"))
}

fn read_ack(sh: crate::sim::Sh, stream: &[u8], n: usize) -> Vec<(Option<Result<String, String>>, usize)> {
    read_with::<io::Ack>(sh, stream, n, |p| match p {
        io::Ack::Ack(a) => format!("Ack({a:?})"),
    })
}

fn parse_q<E: ZvtParser>(b: &[u8]) -> Result<(), ZVTError> {
    E::zvt_parse(b).map(|_| ())
}

fn parse_dbg<E: ZvtParser + Debug>(b: &[u8]) -> Result<String, ZVTError> {
    Ok(format!("{:?}", E::zvt_parse(b)?))
}

fn parse_ack(b: &[u8]) -> Result<String, ZVTError> {
    match io::Ack::zvt_parse(b)? {
        io::Ack::Ack(a) => Ok(format!("Ack({a:?})")),
    }
}

pub fn enums() -> Vec<RealEnum> {
    vec![
        RealEnum { key: "Ack", parse: parse_ack, parse_quiet: parse_q::<io::Ack>, read: read_ack },
        RealEnum { key: "RegistrationResponse", parse: parse_dbg::<sequences::RegistrationResponse>, parse_quiet: parse_q::<sequences::RegistrationResponse>, read: read_dbg::<sequences::RegistrationResponse> },
        RealEnum { key: "ReadCardResponse", parse: parse_dbg::<sequences::ReadCardResponse>, parse_quiet: parse_q::<sequences::ReadCardResponse>, read: read_dbg::<sequences::ReadCardResponse> },
        RealEnum { key: "InitializationResponse", parse: parse_dbg::<sequences::InitializationResponse>, parse_quiet: parse_q::<sequences::InitializationResponse>, read: read_dbg::<sequences::InitializationResponse> },
        RealEnum { key: "SetTerminalIdResponse", parse: parse_dbg::<sequences::SetTerminalIdResponse>, parse_quiet: parse_q::<sequences::SetTerminalIdResponse>, read: read_dbg::<sequences::SetTerminalIdResponse> },
        RealEnum { key: "ResetTerminalResponse", parse: parse_dbg::<sequences::ResetTerminalResponse>, parse_quiet: parse_q::<sequences::ResetTerminalResponse>, read: read_dbg::<sequences::ResetTerminalResponse> },
        RealEnum { key: "DiagnosisResponse", parse: parse_dbg::<sequences::DiagnosisResponse>, parse_quiet: parse_q::<sequences::DiagnosisResponse>, read: read_dbg::<sequences::DiagnosisResponse> },
        RealEnum { key: "EndOfDayResponse", parse: parse_dbg::<sequences::EndOfDayResponse>, parse_quiet: parse_q::<sequences::EndOfDayResponse>, read: read_dbg::<sequences::EndOfDayResponse> },
        RealEnum { key: "AuthorizationResponse", parse: parse_dbg::<sequences::AuthorizationResponse>, parse_quiet: parse_q::<sequences::AuthorizationResponse>, read: read_dbg::<sequences::AuthorizationResponse> },
        RealEnum { key: "PartialReversalResponse", parse: parse_dbg::<sequences::PartialReversalResponse>, parse_quiet: parse_q::<sequences::PartialReversalResponse>, read: read_dbg::<sequences::PartialReversalResponse> },
        RealEnum { key: "PrintSystemConfigurationResponse", parse: parse_dbg::<sequences::PrintSystemConfigurationResponse>, parse_quiet: parse_q::<sequences::PrintSystemConfigurationResponse>, read: read_dbg::<sequences::PrintSystemConfigurationResponse> },
        RealEnum { key: "SelectLanguageResponse", parse: parse_dbg::<sequences::SelectLanguageResponse>, parse_quiet: parse_q::<sequences::SelectLanguageResponse>, read: read_dbg::<sequences::SelectLanguageResponse> },
        RealEnum { key: "StatusEnquiryResponse", parse: parse_dbg::<sequences::StatusEnquiryResponse>, parse_quiet: parse_q::<sequences::StatusEnquiryResponse>, read: read_dbg::<sequences::StatusEnquiryResponse> },
        RealEnum { key: "GetSystemInfoResponse", parse: parse_dbg::<feig::sequences::GetSystemInfoResponse>, parse_quiet: parse_q::<feig::sequences::GetSystemInfoResponse>, read: read_dbg::<feig::sequences::GetSystemInfoResponse> },
        RealEnum { key: "WriteFileResponse", parse: parse_dbg::<feig::sequences::WriteFileResponse>, parse_quiet: parse_q::<feig::sequences::WriteFileResponse>, read: read_dbg::<feig::sequences::WriteFileResponse> },
        RealEnum { key: "FactoryResetResponse", parse: parse_dbg::<feig::sequences::FactoryResetResponse>, parse_quiet: parse_q::<feig::sequences::FactoryResetResponse>, read: read_dbg::<feig::sequences::FactoryResetResponse> },
        RealEnum { key: "ChangeHostConfigurationResponse", parse: parse_dbg::<feig::sequences::ChangeHostConfigurationResponse>, parse_quiet: parse_q::<feig::sequences::ChangeHostConfigurationResponse>, read: read_dbg::<feig::sequences::ChangeHostConfigurationResponse> },
    ]
}

/// Reply table (DESIGN.md Appendix B): enum -> [(variant, layout-table key of its packet type)].
pub fn reply_table() -> Vec<(&'static str, Vec<(&'static str, &'static str)>)> {
    let auth = vec![
        ("IntermediateStatusInformation", "IntermediateStatusInformation"),
        ("StatusInformation", "StatusInformation"),
        ("PrintLine", "PrintLine"),
        ("PrintTextBlock", "PrintTextBlock"),
        ("CompletionData", "CompletionData"),
        ("Abort", "Abort"),
    ];
    vec![
        ("Ack", vec![("Ack", "Ack")]),
        ("RegistrationResponse", vec![("CompletionData", "CompletionData")]),
        (
            "ReadCardResponse",
            vec![("IntermediateStatusInformation", "IntermediateStatusInformation"), ("StatusInformation", "StatusInformation"), ("Abort", "Abort")],
        ),
        (
            "InitializationResponse",
            vec![
                ("IntermediateStatusInformation", "IntermediateStatusInformation"),
                ("PrintLine", "PrintLine"),
                ("PrintTextBlock", "PrintTextBlock"),
                ("CompletionData", "CompletionData"),
                ("Abort", "Abort"),
            ],
        ),
        ("SetTerminalIdResponse", vec![("CompletionData", "CompletionData"), ("Abort", "Abort")]),
        ("ResetTerminalResponse", vec![("CompletionData", "CompletionData")]),
        (
            "DiagnosisResponse",
            vec![
                ("IntermediateStatusInformation", "IntermediateStatusInformation"),
                ("SetTimeAndDate", "SetTimeAndDate"),
                ("PrintLine", "PrintLine"),
                ("PrintTextBlock", "PrintTextBlock"),
                ("CompletionData", "CompletionData"),
                ("Abort", "Abort"),
            ],
        ),
        (
            "EndOfDayResponse",
            vec![
                ("IntermediateStatusInformation", "IntermediateStatusInformation"),
                ("StatusInformation", "StatusInformation"),
                ("PrintLine", "PrintLine"),
                ("PrintTextBlock", "PrintTextBlock"),
                ("CompletionData", "CompletionData"),
                ("Abort", "PartialReversalAbort"),
            ],
        ),
        ("AuthorizationResponse", auth.clone()),
        (
            "PartialReversalResponse",
            vec![
                ("IntermediateStatusInformation", "IntermediateStatusInformation"),
                ("StatusInformation", "StatusInformation"),
                ("PrintLine", "PrintLine"),
                ("PrintTextBlock", "PrintTextBlock"),
                ("CompletionData", "CompletionData"),
                ("PartialReversalAbort", "PartialReversalAbort"),
            ],
        ),
        ("PrintSystemConfigurationResponse", vec![("PrintLine", "PrintLine"), ("PrintTextBlock", "PrintTextBlock"), ("CompletionData", "CompletionData")]),
        ("SelectLanguageResponse", vec![("CompletionData", "CompletionData")]),
        (
            "StatusEnquiryResponse",
            vec![
                ("IntermediateStatusInformation", "IntermediateStatusInformation"),
                ("PrintLine", "PrintLine"),
                ("PrintTextBlock", "PrintTextBlock"),
                ("CompletionData", "CompletionData"),
            ],
        ),
        (
            "GetSystemInfoResponse",
            vec![
                ("CVendFunctionsEnhancedSystemInformationCompletion", "feig::CVendFunctionsEnhancedSystemInformationCompletion"),
                ("Abort", "Abort"),
            ],
        ),
        ("WriteFileResponse", vec![("CompletionData", "CompletionData"), ("RequestForData", "feig::RequestForData"), ("Abort", "Abort")]),
        ("FactoryResetResponse", vec![("CompletionData", "CompletionData")]),
        ("ChangeHostConfigurationResponse", vec![("CompletionData", "CompletionData"), ("Abort", "Abort")]),
    ]
}
