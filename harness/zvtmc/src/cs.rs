//! Shared infrastructure of the codec sweeps (C01, C03, C13, C14, C02): the value space of
//! DESIGN.md 5.2 cut into slices for the worker threads, and the bridge to natively constructed
//! real values.
use crate::builders;
use std::fmt::Debug;
use vcore::codec::*;
use vcore::layout::*;
use vcore::values::*;
use zvt::{encoding, ZvtSerializer};

#[derive(Clone, Debug)]
pub enum Slice {
    Baseline,
    /// deviation-bounded values whose first deviating field is this one
    First(usize),
    AllPresent,
    /// sizing rows for the variable-length leaf with this index
    Sizing(usize),
    /// rows in which the repeated field with this index holds many items
    Repeat(usize),
    /// present positional optionals whose first byte equals a tag of the struct
    Collide,
}

pub fn slices(table: &Table, ty: &TypeDef) -> Vec<Slice> {
    let mut out = vec![Slice::Baseline, Slice::AllPresent, Slice::Collide];
    for i in 0..ty.fields.len() {
        out.push(Slice::First(i));
    }
    for i in 0..variable_leaves(table, ty).len() {
        out.push(Slice::Sizing(i));
    }
    for i in 0..repeated_fields(table, ty).len() {
        out.push(Slice::Repeat(i));
    }
    out
}

pub fn visit_slice(table: &Table, ty: &TypeDef, slice: &Slice, k: usize, f: &mut dyn FnMut(&Val, &str)) {
    match slice {
        Slice::Baseline => enumerate_visit(table, ty, k, None, &mut |v, _| f(v, "baseline")),
        Slice::First(i) => enumerate_visit(table, ty, k, Some(*i), &mut |v, _| f(v, "deviation-bounded")),
        Slice::AllPresent => {
            for pick in 0..6 {
                for vlen in 1..=3 {
                    f(&all_present(table, ty, pick, vlen), "all-present");
                }
            }
        }
        Slice::Collide => {
            for v in tag_collisions(table, ty) {
                f(&v, "tag-collision");
            }
        }
        Slice::Repeat(i) => {
            let fields = repeated_fields(table, ty);
            for n in [4usize, 17, 33, 118, 127, 128, 254, 255, 256, 257, 300, 1000] {
                f(&repeated(table, ty, &fields[*i], n), "many-items");
            }
        }
        Slice::Sizing(i) => {
            let leaves = variable_leaves(table, ty);
            let path = &leaves[*i];
            let mut sizes: Vec<usize> = (0..=300).collect();
            sizes.extend([511, 512, 513, 767, 768, 998, 999, 1000, 1068, 1279, 1280, 4095, 4096, 4097, 32767, 32768, 65000, 65279, 65280]);
            for n in sizes {
                f(&sized(table, ty, path, n), "sizing");
            }
        }
    }
}

// ------------------------------------------------------------------ native values

pub struct NativeOut {
    pub bytes: Vec<u8>,
    pub debug_x: String,
    /// decode(encode(x)): (y == x, remainder length, Debug of y) or the error
    pub back: Result<(bool, usize, String), String>,
}

pub struct Native {
    pub key: &'static str,
    pub run: fn(&Val) -> NativeOut,
    pub encode: fn(&Val) -> Vec<u8>,
}

fn native<T>(x: T) -> NativeOut
where
    T: ZvtSerializer + Debug + PartialEq,
    encoding::Default: encoding::Encoding<T>,
{
    let bytes = x.zvt_serialize();
    let back = match T::zvt_deserialize(&bytes) {
        Ok((y, rest)) => Ok((y == x, rest.len(), format!("{y:?}"))),
        Err(e) => Err(format!("{e:?}")),
    };
    NativeOut { bytes, debug_x: format!("{x:?}"), back }
}

fn native_encode<T>(x: T) -> Vec<u8>
where
    T: ZvtSerializer,
    encoding::Default: encoding::Encoding<T>,
{
    x.zvt_serialize()
}

macro_rules! mk_natives {
    ($($key:literal => $f:ident : $ty:ty),* $(,)?) => {
        pub fn natives() -> Vec<Native> {
            vec![$(Native { key: $key, run: |v| native::<$ty>(builders::$f(v)), encode: |v| native_encode::<$ty>(builders::$f(v)) }),*]
        }
    };
}
for_each_buildable!(mk_natives);

pub fn native_for(key: &str) -> Option<Native> {
    natives().into_iter().find(|n| n.key == key)
}

/// names of the fields that differ from the baseline, for violation keys
pub fn deviating(table: &Table, ty: &TypeDef, v: &Val) -> String {
    let mut out = vec![];
    nonbaseline_fields(table, ty, v, "", &mut out);
    let names: Vec<String> = out.iter().map(|s| s.rsplit('.').next().unwrap_or("").to_string()).collect();
    if names.is_empty() {
        "baseline".into()
    } else {
        names.join("+")
    }
}
