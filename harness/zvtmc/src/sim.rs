//! ScriptedStream: an in-memory AsyncRead + AsyncWrite whose every answer (how many bytes, a
//! Pending with an immediate wake, end of stream) is a dbx choice, and a manual poll loop that
//! recognises a blocked reader. No runtime is needed.
use std::cell::RefCell;
use std::future::Future;
use std::pin::Pin;
use std::rc::Rc;
use std::sync::atomic::{AtomicBool, Ordering};
use std::sync::Arc;
use std::task::{Context, Poll, Wake, Waker};
use tokio::io::{AsyncRead, AsyncWrite, ReadBuf};
use vcore::dbx::Ctx;

pub type Sh = Rc<RefCell<Ctx>>;

#[derive(Clone, Debug, PartialEq)]
pub enum Ev {
    /// n bytes delivered to the reader; `pos` = total delivered afterwards
    Read(usize, usize),
    /// bytes written by the client (consecutive writes are coalesced)
    Write(Vec<u8>),
    Eof,
    /// a marker inserted by the harness (e.g. "item 2 yielded")
    Mark(String),
}

#[derive(Clone, Copy, PartialEq, Debug)]
pub enum Chunking {
    /// every split is an `any` choice: all counts 1..=min(avail, requested) and a Pending
    All,
    /// default = as much as possible; deviations: 1 byte, half, all but one, Pending
    Deviations,
    /// always as much as possible
    Greedy,
}

pub struct State {
    pub incoming: Vec<u8>,
    pub pos: usize,
    /// the stream ends (read returns 0) once `pos` reaches this offset
    pub eof_at: Option<usize>,
    /// at `eof_at` the read fails with an I/O error instead of reporting the end of the stream
    pub fail_instead_of_eof: bool,
    /// bytes beyond this offset are not released yet (the peer waits for the client's answer)
    pub released: usize,
    pub log: Vec<Ev>,
    pub chunking: Chunking,
    last_was_pending: bool,
    pub written: Vec<u8>,
    /// number of reads that found nothing to deliver (reader blocked on the peer)
    pub starved: usize,
    /// the write call with this index (0 = first) fails with an I/O error, and every later one
    pub fail_write_call: Option<usize>,
    pub write_calls: usize,
    /// one read fails with this I/O error kind once exactly `.0` bytes have been delivered (the read
    /// before it ends there, however much was asked for); later reads deliver data again
    pub transient_error_at: Option<(usize, std::io::ErrorKind)>,
    pub transient_done: bool,
    /// the peer pauses for this long (virtual time) once exactly `.0` bytes have been delivered; the
    /// read before it ends there
    pub pause_at: Option<(usize, std::time::Duration)>,
    pub pause_done: bool,
    pause_sleep: Option<Pin<Box<tokio::time::Sleep>>>,
}

#[derive(Clone)]
pub struct Scripted {
    pub st: Rc<RefCell<State>>,
    ctx: Sh,
}

// The real traits demand Send; the harness is strictly single threaded (one stream per
// execution, never moved to another thread).
unsafe impl Send for Scripted {}

impl Scripted {
    pub fn new(ctx: Sh, incoming: Vec<u8>, chunking: Chunking) -> Self {
        let released = incoming.len();
        Scripted {
            st: Rc::new(RefCell::new(State {
                incoming,
                pos: 0,
                eof_at: None,
                fail_instead_of_eof: false,
                released,
                log: vec![],
                chunking,
                last_was_pending: false,
                written: vec![],
                starved: 0,
                fail_write_call: None,
                write_calls: 0,
                transient_error_at: None,
                transient_done: false,
                pause_at: None,
                pause_done: false,
                pause_sleep: None,
            })),
            ctx,
        }
    }
    pub fn mark(&self, s: String) {
        self.st.borrow_mut().log.push(Ev::Mark(s));
    }
    pub fn consumed(&self) -> usize {
        self.st.borrow().pos
    }
}

impl AsyncRead for Scripted {
    fn poll_read(self: Pin<&mut Self>, cx: &mut Context<'_>, buf: &mut ReadBuf<'_>) -> Poll<std::io::Result<()>> {
        let mut st = self.st.borrow_mut();
        let req = buf.remaining();
        if req == 0 {
            return Poll::Ready(Ok(()));
        }
        let mut limit = st.eof_at.unwrap_or(usize::MAX).min(st.released).min(st.incoming.len());
        if let (Some((at, kind)), false) = (st.transient_error_at, st.transient_done) {
            if st.pos == at {
                st.transient_done = true;
                st.log.push(Ev::Mark(format!("read failed with {kind:?}")));
                return Poll::Ready(Err(std::io::Error::new(kind, "transient read error (scripted)")));
            }
            if st.pos < at {
                limit = limit.min(at);
            }
        }
        let avail = limit.saturating_sub(st.pos);
        if avail == 0 {
            if st.eof_at.map(|e| st.pos >= e).unwrap_or(false) {
                if st.log.last() != Some(&Ev::Eof) {
                    st.log.push(Ev::Eof);
                }
                if st.fail_instead_of_eof {
                    return Poll::Ready(Err(std::io::Error::new(std::io::ErrorKind::ConnectionReset, "connection reset by the scripted peer")));
                }
                return Poll::Ready(Ok(())); // end of stream
            }
            // nothing to deliver and no end of stream: the reader is blocked on the peer
            st.starved += 1;
            return Poll::Pending;
        }
        if let (Some((at, d)), false) = (st.pause_at, st.pause_done) {
            if st.pos == at {
                if st.pause_sleep.is_none() {
                    st.pause_sleep = Some(Box::pin(tokio::time::sleep(d)));
                }
                match st.pause_sleep.as_mut().unwrap().as_mut().poll(cx) {
                    Poll::Pending => return Poll::Pending,
                    Poll::Ready(()) => {
                        st.pause_done = true;
                        st.pause_sleep = None;
                    }
                }
            }
        }
        let mut avail = avail;
        if let (Some((at, _)), false) = (st.pause_at, st.pause_done) {
            if st.pos < at {
                avail = avail.min(at - st.pos);
            }
        }
        let max = avail.min(req);
        let n = match st.chunking {
            Chunking::Greedy => max,
            Chunking::All => {
                // choices: max, max-1, .., 1, then Pending (not twice in a row)
                let k = max + if st.last_was_pending { 0 } else { 1 };
                let c = self.ctx.borrow_mut().any(k, "read-split");
                if c == max {
                    0
                } else {
                    max - c
                }
            }
            Chunking::Deviations => {
                let mut opts: Vec<usize> = vec![max];
                for o in [1, max / 2, max - 1] {
                    if o >= 1 && o < max && !opts.contains(&o) {
                        opts.push(o);
                    }
                }
                if !st.last_was_pending {
                    opts.push(0);
                }
                let c = self.ctx.borrow_mut().dev(opts.len(), "read-split");
                opts[c]
            }
        };
        if n == 0 {
            st.last_was_pending = true;
            cx.waker().wake_by_ref();
            return Poll::Pending;
        }
        st.last_was_pending = false;
        let p = st.pos;
        buf.put_slice(&st.incoming[p..p + n]);
        st.pos += n;
        let pos = st.pos;
        st.log.push(Ev::Read(n, pos));
        Poll::Ready(Ok(()))
    }
}

impl AsyncWrite for Scripted {
    fn poll_write(self: Pin<&mut Self>, _cx: &mut Context<'_>, buf: &[u8]) -> Poll<std::io::Result<usize>> {
        let mut st = self.st.borrow_mut();
        let call = st.write_calls;
        st.write_calls += 1;
        if st.fail_write_call.map(|k| call >= k).unwrap_or(false) {
            st.log.push(Ev::Mark(format!("write of {} bytes refused (broken pipe)", buf.len())));
            return Poll::Ready(Err(std::io::Error::new(std::io::ErrorKind::BrokenPipe, "broken pipe (scripted)")));
        }
        // a transport may accept only a prefix of the offered bytes (deviation: one byte / half)
        let n = if st.chunking == Chunking::Deviations && buf.len() > 1 {
            match self.ctx.borrow_mut().dev(3, "write-split") {
                1 => 1,
                2 => buf.len() / 2,
                _ => buf.len(),
            }
        } else {
            buf.len()
        };
        let buf = &buf[..n];
        st.written.extend_from_slice(buf);
        if let Some(Ev::Write(w)) = st.log.last_mut() {
            w.extend_from_slice(buf);
        } else {
            st.log.push(Ev::Write(buf.to_vec()));
        }
        Poll::Ready(Ok(n))
    }
    fn poll_flush(self: Pin<&mut Self>, _cx: &mut Context<'_>) -> Poll<std::io::Result<()>> {
        Poll::Ready(Ok(()))
    }
    fn poll_shutdown(self: Pin<&mut Self>, _cx: &mut Context<'_>) -> Poll<std::io::Result<()>> {
        Poll::Ready(Ok(()))
    }
}

struct Flag(AtomicBool);
impl Wake for Flag {
    fn wake(self: Arc<Self>) {
        self.0.store(true, Ordering::SeqCst);
    }
    fn wake_by_ref(self: &Arc<Self>) {
        self.0.store(true, Ordering::SeqCst);
    }
}

pub enum Driven<T> {
    Done(T),
    /// the future returned Pending without having been woken: it waits for the peer
    Blocked,
}

thread_local! {
    /// a paused-clock runtime per worker thread: gives the code under test a timer context (so a
    /// `tokio::time` call in it neither panics nor needs real time) and lets virtual time pass
    static RT: tokio::runtime::Runtime = tokio::runtime::Builder::new_current_thread().enable_time().start_paused(true).build().expect("runtime");
}

/// Polls `fut` to completion; `Blocked` if it is pending with no wake-up outstanding and no amount
/// of (virtual) time makes it ready: once the manual poll loop finds the future pending without a
/// wake-up, it is handed to the paused-clock runtime under a horizon of one virtual day, so that
/// timers of the code under test and pauses of the scripted peer run off.
pub fn drive<F: Future>(mut fut: Pin<&mut F>) -> Driven<F::Output> {
    RT.with(|rt| {
        let _ctx = rt.enter();
        let flag = Arc::new(Flag(AtomicBool::new(false)));
        let waker = Waker::from(flag.clone());
        let mut cx = Context::from_waker(&waker);
        let mut spins = 0u64;
        loop {
            vcore::report::watch_tick();
            let polled = fut.as_mut().poll(&mut cx);
            vcore::report::watch_exit();
            match polled {
                Poll::Ready(v) => return Driven::Done(v),
                Poll::Pending => {
                    if !flag.0.swap(false, Ordering::SeqCst) {
                        vcore::report::watch_tick();
                        let r = rt.block_on(async {
                            match tokio::time::timeout(std::time::Duration::from_secs(86_400), std::future::poll_fn(|cx| fut.as_mut().poll(cx))).await {
                                Ok(v) => Driven::Done(v),
                                Err(_) => Driven::Blocked,
                            }
                        });
                        vcore::report::watch_exit();
                        return r;
                    }
                    spins += 1;
                    if spins > 10_000_000 {
                        eprintln!("MACHINERY: poll loop did not settle");
                        std::process::exit(vcore::report::EXIT_MACHINERY);
                    }
                }
            }
        }
    })
}

pub fn drive_boxed<T>(fut: Pin<Box<dyn Future<Output = T> + '_>>) -> Driven<T> {
    let mut f = fut;
    drive(Pin::new(&mut f))
}
