//! C04 - packets are read from a byte stream exactly at APDU boundaries.
use crate::sim::*;
use crate::util::*;
use serde_json::json;
use std::cell::RefCell;
use std::rc::Rc;
use vcore::codec::apdu_len;
use vcore::dbx::{self, Ctx};
use vcore::report::*;
use zvt::io::PacketTransport;
use zvt::packets;
use zvt::sequences::InitializationResponse as Resp;

/// packet alphabet (all parseable as InitializationResponse)
fn alphabet() -> Vec<(&'static str, Vec<u8>)> {
    let print_line = |body_len: usize| -> Vec<u8> {
        let mut p = vec![0x06, 0xd1];
        p.extend(apdu_len(body_len).unwrap());
        p.push(0x01); // attribute
        p.extend((0..body_len - 1).map(|i| b'a' + (i % 26) as u8));
        p
    };
    vec![
        ("completion-empty", vec![0x06, 0x0f, 0x00]),
        ("abort-6c", vec![0x06, 0x1e, 0x01, 0x6c]),
        ("status-17", vec![0x04, 0xff, 0x01, 0x17]),
        ("status-17-05", vec![0x04, 0xff, 0x02, 0x17, 0x05]),
        ("printline-253", print_line(253)),
        ("printline-254", print_line(254)),
        ("printline-255", print_line(255)),
        ("printline-256", print_line(256)),
        ("printline-300", print_line(300)),
    ]
}

fn expect_debug(p: &[u8]) -> String {
    // what the reader must return for a packet of the alphabet, stated independently
    match (p[0], p[1]) {
        (0x06, 0x0f) => "CompletionData(CompletionData { result_code: None, status_byte: None, terminal_id: None, currency: None })".into(),
        (0x06, 0x1e) => format!("Abort(Abort {{ error: {} }})", p[3]),
        (0x04, 0xff) => {
            if p[2] == 1 {
                format!("IntermediateStatusInformation(IntermediateStatusInformation {{ status: {}, timeout: Some(0) }})", p[3])
            } else {
                format!("IntermediateStatusInformation(IntermediateStatusInformation {{ status: {}, timeout: Some({}) }})", p[3], (p[4] >> 4) * 10 + (p[4] & 0xf))
            }
        }
        (0x06, 0xd1) => {
            let hl = if p[2] == 0xff { 5 } else { 3 };
            let text: String = p[hl + 1..].iter().map(|b| *b as char).collect();
            format!("PrintLine(PrintLine {{ attribute: {}, text: {:?} }})", p[hl], text)
        }
        _ => unreachable!(),
    }
}

struct Outcome {
    /// per read_packet call: Ok(debug) / Err / Blocked
    results: Vec<Result<String, String>>,
    consumed_after: Vec<usize>,
    blocked: bool,
}

/// one execution: read `reads` packets from the stream
fn execute(ctx: &mut Ctx, stream: &[u8], eof_at: Option<usize>, chunking: Chunking, reads: usize) -> Outcome {
    execute_ex(ctx, stream, eof_at, false, chunking, reads)
}

fn execute_ex(ctx: &mut Ctx, stream: &[u8], eof_at: Option<usize>, reset: bool, chunking: Chunking, reads: usize) -> Outcome {
    let sh: Sh = Rc::new(RefCell::new(std::mem::replace(ctx, Ctx::new(vec![], vec![], 0))));
    let s = Scripted::new(sh.clone(), stream.to_vec(), chunking);
    s.st.borrow_mut().eof_at = eof_at;
    s.st.borrow_mut().fail_instead_of_eof = reset;
    watch_describe(|| format!("read_packet on the stream {} with the end of the stream at {eof_at:?} (as I/O error: {reset})", hex_short(stream)));
    let mut out = Outcome { results: vec![], consumed_after: vec![], blocked: false };
    {
        let mut tr = PacketTransport { source: s.clone() };
        for _ in 0..reads {
            let r = guarded(|| {
                let fut = tr.read_packet::<Resp>();
                let mut fut = Box::pin(fut);
                match drive(fut.as_mut()) {
                    Driven::Done(Ok(p)) => Some(Ok(format!("{p:?}"))),
                    Driven::Done(Err(e)) => Some(Err(format!("{e:?}"))),
                    Driven::Blocked => None,
                }
            });
            match r {
                Err(p) => {
                    out.results.push(Err(format!("PANIC: {p}")));
                    out.consumed_after.push(s.consumed());
                    break;
                }
                Ok(None) => {
                    out.blocked = true;
                    break;
                }
                Ok(Some(x)) => {
                    let failed = x.is_err();
                    out.results.push(x);
                    out.consumed_after.push(s.consumed());
                    if failed {
                        break;
                    }
                }
            }
        }
    }
    drop(s);
    *ctx = Rc::try_unwrap(sh).ok().expect("stream still holds the context").into_inner();
    out
}

fn check_stream(name: &str, pkts: &[Vec<u8>], chunking: Chunking, budget: u32, eof: bool, acc: &mut Acc) {
    check_stream_ex(name, pkts, chunking, budget, eof, false, acc);
    if eof {
        // the connection fails with an I/O error instead of ending cleanly
        check_stream_ex(name, pkts, chunking, 0, true, true, acc);
    }
}

fn check_stream_ex(name: &str, pkts: &[Vec<u8>], chunking: Chunking, budget: u32, eof: bool, reset: bool, acc: &mut Acc) {
    let stream: Vec<u8> = pkts.concat();
    let eofs: Vec<Option<usize>> = if eof { (0..=stream.len()).map(Some).collect() } else { vec![None] };
    for eof_at in eofs {
        let st = dbx::explore(budget, 50_000_000, |ctx| {
            let reads = pkts.len() + if eof_at.is_some() { 1 } else { 0 };
            let o = execute_ex(ctx, &stream, eof_at, reset, chunking, reads);
            acc.count("executions", 1);
            // expectation
            let limit = eof_at.unwrap_or(stream.len());
            let mut ends = vec![];
            let mut e = 0;
            for p in pkts {
                e += p.len();
                ends.push(e);
            }
            let complete = ends.iter().filter(|x| **x <= limit).count();
            let mut problems = vec![];
            for i in 0..complete {
                match o.results.get(i) {
                    Some(Ok(d)) if *d == expect_debug(&pkts[i]) => {
                        if o.consumed_after[i] != ends[i] {
                            problems.push(format!("after packet {i} the reader had consumed {} bytes, the packet ends at {}", o.consumed_after[i], ends[i]));
                        }
                    }
                    other => problems.push(format!("packet {i}: expected {} got {:?}", &expect_debug(&pkts[i])[..40.min(expect_debug(&pkts[i]).len())], other.map(|r| r.as_ref().map(|s| s.chars().take(60).collect::<String>()).map_err(|s| s.clone())))),
                }
            }
            if eof_at.is_some() {
                // the stream ends at `limit`: the next read must fail (never a packet), and must not block
                match o.results.get(complete) {
                    Some(Err(e)) if !e.starts_with("PANIC") => acc.count("eof_errors", 1),
                    Some(other) => problems.push(format!("stream ended at byte {limit} inside/before packet {complete}: expected an error, got {:?}", other.as_ref().map(|s| s.chars().take(80).collect::<String>()))),
                    None => problems.push(format!("stream ended at byte {limit}: the read of packet {complete} neither failed nor returned (blocked={})", o.blocked)),
                }
            } else if o.blocked || o.results.len() != pkts.len() {
                problems.push(format!("expected {} packets, got {} results (blocked={})", pkts.len(), o.results.len(), o.blocked));
            }
            acc.set("outcomes", h64(&(name, eof_at, &o.results)));
            if ctx.deviations > 0 || chunking == Chunking::All {
                acc.count("chunked_executions", 1);
            }
            if !problems.is_empty() {
                let choices = ctx.choices();
                let key = format!("c04/{name}/eof={eof_at:?}/reset={reset}/choices={:?}", choices);
                let mut v = viol(
                    key,
                    format!(
                        "stream {name} ({} bytes: {}), end of stream at {eof_at:?} (as I/O error: {reset}), read-split choices {choices:?}\n{}",
                        stream.len(),
                        hex_short(&stream),
                        problems.join("\n")
                    ),
                    ctx.deviations as u64 * 1000 + stream.len() as u64,
                );
                v.replay = json!({"harness": "c04/stream", "name": name, "eof_at": eof_at, "choices": choices});
                acc.violation(v);
            }
        });
        acc.count("transitions", st.transitions);
        acc.max("max_depth", st.max_depth);
        acc.max("max_deviations", st.max_deviations);
        if st.capped {
            acc.count("capped", 1);
        }
    }
}

/// A single read of the transport fails with an I/O error (Interrupted, WouldBlock, TimedOut, Other)
/// after exactly `at` bytes, for every `at`; the reads after it deliver data again. Whatever the
/// reader does about the error, every packet it returns must be the packet at that position of the
/// stream, consumed exactly to its end: an error may surface, a different packet may not, and the
/// reader must not wait for bytes beyond the stream.
pub fn check_transient(prefix: &str, name: &str, pkts: &[Vec<u8>], budget: u32, acc: &mut Acc) {
    use std::io::ErrorKind::*;
    let stream: Vec<u8> = pkts.concat();
    let mut ends = vec![];
    let mut e = 0;
    for p in pkts {
        e += p.len();
        ends.push(e);
    }
    for at in 0..stream.len() {
        for kind in [Interrupted, WouldBlock, TimedOut, Other] {
            let st = dbx::explore(budget, 50_000_000, |ctx| {
                let sh: Sh = Rc::new(RefCell::new(std::mem::replace(ctx, Ctx::new(vec![], vec![], 0))));
                let s = Scripted::new(sh.clone(), stream.clone(), Chunking::Deviations);
                s.st.borrow_mut().transient_error_at = Some((at, kind));
                watch_describe(|| format!("read_packet on the stream {} with a read failing with {kind:?} after {at} bytes", hex_short(&stream)));
                let mut results: Vec<Result<String, String>> = vec![];
                let mut consumed = vec![];
                let mut blocked = false;
                {
                    let mut tr = PacketTransport { source: s.clone() };
                    for _ in 0..pkts.len() {
                        let r = guarded(|| {
                            let mut fut = Box::pin(tr.read_packet::<Resp>());
                            match drive(fut.as_mut()) {
                                Driven::Done(Ok(p)) => Some(Ok(format!("{p:?}"))),
                                Driven::Done(Err(e)) => Some(Err(format!("{e:?}"))),
                                Driven::Blocked => None,
                            }
                        });
                        match r {
                            Err(p) => {
                                results.push(Err(format!("PANIC: {p}")));
                                consumed.push(s.consumed());
                                break;
                            }
                            Ok(None) => {
                                blocked = true;
                                break;
                            }
                            Ok(Some(x)) => {
                                let failed = x.is_err();
                                results.push(x);
                                consumed.push(s.consumed());
                                if failed {
                                    break;
                                }
                            }
                        }
                    }
                }
                drop(s);
                *ctx = Rc::try_unwrap(sh).ok().expect("stream still holds the context").into_inner();
                acc.count("executions", 1);
                acc.count("transient_error_executions", 1);
                let mut problems = vec![];
                for (i, r) in results.iter().enumerate() {
                    match r {
                        Ok(d) => {
                            if *d != expect_debug(&pkts[i]) {
                                problems.push(format!("packet {i}: expected {} got {}", expect_debug(&pkts[i]), d.chars().take(120).collect::<String>()));
                            } else if consumed[i] != ends[i] {
                                problems.push(format!("after packet {i} the reader had consumed {} bytes, the packet ends at {}", consumed[i], ends[i]));
                            }
                        }
                        Err(e) if e.starts_with("PANIC") => problems.push(format!("packet {i}: {e}")),
                        Err(_) => acc.count("transient_errors_surfaced", 1),
                    }
                }
                if blocked {
                    problems.push("the reader waits for bytes beyond the end of the data although the stream only failed one read".into());
                }
                acc.set("outcomes", h64(&(name, at, format!("{kind:?}"), &results)));
                if !problems.is_empty() {
                    let choices = ctx.choices();
                    acc.violation(viol(
                        format!("{prefix}/transient/{name}/at={at}/kind={kind:?}/choices={choices:?}"),
                        format!("stream {name} ({} bytes: {}), one read fails with {kind:?} after {at} bytes, read-split choices {choices:?}\n{}", stream.len(), hex_short(&stream), problems.join("\n")),
                        ctx.deviations as u64 * 1000 + stream.len() as u64,
                    ));
                }
            });
            acc.count("transitions", st.transitions);
        }
    }
}

/// The two acknowledged forms of the transport. `write_packet_with_ack` writes a command and reads
/// the three bytes of the acknowledgement; `read_packet_with_ack` reads one packet and writes the
/// acknowledgement. Stream = `first` + `second`; the end of the stream (or a reset) is placed at
/// every offset; one read deviation.
fn check_acknowledged(name: &str, first: &[u8], second: &[u8], acc: &mut Acc) {
    let mut stream = first.to_vec();
    stream.extend_from_slice(second);
    let command = packets::EndOfDay { password: 123456 };
    let command_bytes = {
        use zvt::ZvtSerializer;
        command.zvt_serialize()
    };
    let first_is_ack = first == [0x80, 0, 0];
    let mut eofs: Vec<(Option<usize>, bool)> = vec![(None, false)];
    for e in 0..=stream.len().min(first.len() + 6) {
        eofs.push((Some(e), false));
        eofs.push((Some(e), true));
    }
    // the writing side is broken: neither form may report success, and the command form must not
    // go on to read
    for mode in 0..2 {
        let sh: Sh = Rc::new(RefCell::new(Ctx::new(vec![], vec![], 0)));
        let s = Scripted::new(sh, stream.clone(), Chunking::Greedy);
        s.st.borrow_mut().fail_write_call = Some(0);
        let mut tr = PacketTransport { source: s.clone() };
        let r: Result<Option<bool>, String> = guarded(|| {
            if mode == 0 {
                let mut fut = Box::pin(tr.write_packet_with_ack(&command));
                match drive(fut.as_mut()) {
                    Driven::Done(r) => Some(r.is_ok()),
                    Driven::Blocked => None,
                }
            } else {
                let mut fut = Box::pin(tr.read_packet_with_ack::<Resp>());
                match drive(fut.as_mut()) {
                    Driven::Done(r) => Some(r.is_ok()),
                    Driven::Blocked => None,
                }
            }
        });
        acc.count("executions", 1);
        acc.count("acknowledged_executions", 1);
        let form = if mode == 0 { "write_packet_with_ack" } else { "read_packet_with_ack" };
        let bad = match &r {
            Ok(Some(false)) => {
                if mode == 0 && s.consumed() != 0 {
                    Some(format!("{form}: the command could not be written, yet {} bytes were read", s.consumed()))
                } else {
                    acc.count("broken_pipe_reported", 1);
                    None
                }
            }
            other => Some(format!("{form} on a connection whose writing side is broken: expected an error, got {other:?}")),
        };
        if let Some(b) = bad {
            acc.violation(viol(format!("c04/acknowledged/{name}/mode={form}/broken-pipe"), format!("stream {name} ({})\n{b}", hex_short(&stream)), 1));
        }
    }
    for (eof_at, reset) in eofs {
        for mode in 0..2 {
            let st = dbx::explore(1, 1_000_000, |ctx| {
                let sh: Sh = Rc::new(RefCell::new(std::mem::replace(ctx, Ctx::new(vec![], vec![], 0))));
                let s = Scripted::new(sh.clone(), stream.clone(), Chunking::Deviations);
                s.st.borrow_mut().eof_at = eof_at;
                s.st.borrow_mut().fail_instead_of_eof = reset;
                let limit = eof_at.unwrap_or(stream.len());
                let mut problems: Vec<String> = vec![];
                {
                    let mut tr = PacketTransport { source: s.clone() };
                    if mode == 0 {
                        // command, acknowledgement, then the next packet
                        let r = guarded(|| {
                            let mut fut = Box::pin(tr.write_packet_with_ack(&command));
                            match drive(fut.as_mut()) {
                                Driven::Done(r) => Some(r.map_err(|e| format!("{e:?}"))),
                                Driven::Blocked => None,
                            }
                        });
                        let written = s.st.borrow().written.clone();
                        let complete = first.len() <= limit;
                        match &r {
                            Err(p) => problems.push(format!("write_packet_with_ack panicked: {p}")),
                            Ok(None) => {
                                if eof_at.is_some() || complete {
                                    problems.push("write_packet_with_ack neither returned nor failed".into());
                                }
                            }
                            Ok(Some(Ok(()))) => {
                                if !(first_is_ack && complete) {
                                    problems.push(format!("write_packet_with_ack returned Ok although the bytes that followed the command were {} (stream ended at {limit})", hex_short(&stream[..limit.min(first.len())])));
                                } else if s.consumed() != 3 {
                                    problems.push(format!("after the acknowledgement {} bytes were consumed (expected 3)", s.consumed()));
                                } else {
                                    acc.count("ack_accepted", 1);
                                }
                            }
                            Ok(Some(Err(_))) => {
                                if first_is_ack && complete {
                                    problems.push("write_packet_with_ack failed although a complete acknowledgement followed the command".into());
                                } else if complete && s.consumed() != first.len() {
                                    problems.push(format!("write_packet_with_ack refused the packet {} but consumed {} bytes of it (the packet ends at {}): the next read starts off the packet boundary", hex_short(first), s.consumed(), first.len()));
                                } else {
                                    acc.count("ack_errors", 1);
                                }
                            }
                        }
                        if written != command_bytes && !matches!(r, Err(_)) {
                            problems.push(format!("bytes written {} differ from the command {}", hex_short(&written), hex_short(&command_bytes)));
                        }
                        if matches!(r, Ok(Some(Ok(())))) && problems.is_empty() && first.len() + second.len() <= limit {
                            let r2 = guarded(|| {
                                let mut fut = Box::pin(tr.read_packet::<Resp>());
                                match drive(fut.as_mut()) {
                                    Driven::Done(Ok(p)) => Some(Ok(format!("{p:?}"))),
                                    Driven::Done(Err(e)) => Some(Err(format!("{e:?}"))),
                                    Driven::Blocked => None,
                                }
                            });
                            match r2 {
                                Ok(Some(Ok(d))) if d == expect_debug(second) && s.consumed() == stream.len() => {}
                                other => problems.push(format!("the packet behind the acknowledgement: expected {} at offset {}, got {:?} at offset {}", expect_debug(second).chars().take(60).collect::<String>(), stream.len(), other, s.consumed())),
                            }
                        }
                    } else {
                        // read one packet and acknowledge it
                        let r = guarded(|| {
                            let mut fut = Box::pin(tr.read_packet_with_ack::<Resp>());
                            match drive(fut.as_mut()) {
                                Driven::Done(Ok(p)) => Some(Ok(format!("{p:?}"))),
                                Driven::Done(Err(e)) => Some(Err(format!("{e:?}"))),
                                Driven::Blocked => None,
                            }
                        });
                        let written = s.st.borrow().written.clone();
                        let complete = first.len() <= limit;
                        let parseable = first[0] != 0x80 && first[0] != 0x84;
                        match &r {
                            Err(p) => problems.push(format!("read_packet_with_ack panicked: {p}")),
                            Ok(None) => {
                                if eof_at.is_some() || complete {
                                    problems.push("read_packet_with_ack neither returned nor failed".into());
                                }
                            }
                            Ok(Some(Ok(d))) => {
                                if !(complete && parseable && *d == expect_debug(first)) {
                                    problems.push(format!("read_packet_with_ack returned {} for the bytes {} (stream ended at {limit})", d.chars().take(80).collect::<String>(), hex_short(&stream[..limit.min(first.len())])));
                                } else if s.consumed() != first.len() || written != [0x80, 0, 0] {
                                    problems.push(format!("after the packet {} bytes were consumed (expected {}) and {} was written (expected 800000)", s.consumed(), first.len(), hex_short(&written)));
                                } else {
                                    acc.count("read_acknowledged", 1);
                                }
                            }
                            Ok(Some(Err(_))) => {
                                if complete && parseable {
                                    problems.push("read_packet_with_ack failed on a complete packet".into());
                                } else if complete && s.consumed() != first.len() {
                                    problems.push(format!("read_packet_with_ack refused the packet {} but consumed {} bytes of it (the packet ends at {})", hex_short(first), s.consumed(), first.len()));
                                } else if !written.is_empty() {
                                    problems.push(format!("read_packet_with_ack failed but wrote {}", hex_short(&written)));
                                } else {
                                    acc.count("ack_errors", 1);
                                }
                            }
                        }
                    }
                }
                drop(s);
                *ctx = Rc::try_unwrap(sh).ok().expect("stream still holds the context").into_inner();
                acc.count("executions", 1);
                acc.count("acknowledged_executions", 1);
                acc.set("outcomes", h64(&(name, mode, eof_at, reset, ctx.choices(), problems.len())));
                if !problems.is_empty() {
                    let choices = ctx.choices();
                    let key = format!("c04/acknowledged/{name}/mode={}/eof={eof_at:?}/reset={reset}/choices={choices:?}", if mode == 0 { "write_packet_with_ack" } else { "read_packet_with_ack" });
                    acc.violation(viol(
                        key,
                        format!("stream {name} ({}), end of stream at {eof_at:?} (as I/O error: {reset}), read-split choices {choices:?}\n{}", hex_short(&stream), problems.join("\n")),
                        ctx.deviations as u64 * 1000 + stream.len() as u64,
                    ));
                }
            });
            acc.count("transitions", st.transitions);
        }
    }
}

/// A packet the caller's reply enum does not know, between two it knows: the read fails, but it
/// consumes exactly that packet, so the packets behind it are still returned.
fn check_foreign_between(name: &str, before: &[u8], foreign: &[u8], after: &[u8], acc: &mut Acc) {
    let mut stream = before.to_vec();
    stream.extend_from_slice(foreign);
    stream.extend_from_slice(after);
    let st = dbx::explore(1, 1_000_000, |ctx| {
        let sh: Sh = Rc::new(RefCell::new(std::mem::replace(ctx, Ctx::new(vec![], vec![], 0))));
        let s = Scripted::new(sh.clone(), stream.clone(), Chunking::Deviations);
        let mut got: Vec<(Option<Result<String, String>>, usize)> = vec![];
        {
            let mut tr = PacketTransport { source: s.clone() };
            for _ in 0..3 {
                let r = guarded(|| {
                    let mut fut = Box::pin(tr.read_packet::<Resp>());
                    match drive(fut.as_mut()) {
                        Driven::Done(Ok(p)) => Some(Ok(format!("{p:?}"))),
                        Driven::Done(Err(e)) => Some(Err(format!("{e:?}"))),
                        Driven::Blocked => None,
                    }
                });
                match r {
                    Ok(x) => got.push((x, s.consumed())),
                    Err(p) => {
                        got.push((Some(Err(format!("PANIC: {p}"))), s.consumed()));
                        break;
                    }
                }
            }
        }
        drop(s);
        *ctx = Rc::try_unwrap(sh).ok().expect("stream still holds the context").into_inner();
        acc.count("executions", 1);
        acc.count("foreign_between_executions", 1);
        let e1 = before.len();
        let e2 = e1 + foreign.len();
        let e3 = e2 + after.len();
        let ok = got.len() == 3
            && matches!(&got[0], (Some(Ok(d)), p) if *d == expect_debug(before) && *p == e1)
            && matches!(&got[1], (Some(Err(e)), p) if !e.starts_with("PANIC") && *p == e2)
            && matches!(&got[2], (Some(Ok(d)), p) if *d == expect_debug(after) && *p == e3);
        acc.set("outcomes", h64(&(name, ctx.choices(), ok)));
        if ok {
            acc.count("foreign_between_ok", 1);
        } else {
            let choices = ctx.choices();
            acc.violation(viol(
                format!("c04/foreign-between/{name}/choices={choices:?}"),
                format!("stream {name} ({}), read-split choices {choices:?}\nthree reads as InitializationResponse returned (result, stream offset): {:?}\nexpected: the first packet at offset {e1}, an error at offset {e2} (the packet is outside the reply set but must be read to its end), the last packet at offset {e3}", hex_short(&stream), got.iter().map(|(r, p)| (r.as_ref().map(|x| x.as_ref().map(|s| s.chars().take(40).collect::<String>()).map_err(|s| s.chars().take(60).collect::<String>())), *p)).collect::<Vec<_>>()),
                ctx.deviations as u64 * 1000 + stream.len() as u64,
            ));
        }
    });
    acc.count("transitions", st.transitions);
}

fn header_agreement(lens: &[usize], acc: &mut Acc) {
    for &n in lens {
        acc.count("executions", 1);
        acc.count("header_cases", 1);
        // body of n bytes: PrintLine{attribute, text of n-1 chars}; n = 0: CompletionData without fields
        let mut ctx = Ctx::new(vec![], vec![], 0);
        let sh: Sh = Rc::new(RefCell::new(std::mem::replace(&mut ctx, Ctx::new(vec![], vec![], 0))));
        let sink = Scripted::new(sh.clone(), vec![], Chunking::Greedy);
        let r = guarded(|| {
            let mut tr = PacketTransport { source: sink.clone() };
            if n == 0 {
                let p = packets::CompletionData::default();
                let mut f = Box::pin(tr.write_packet(&p));
                matches!(drive(f.as_mut()), Driven::Done(Ok(())))
            } else {
                let p = packets::PrintLine { attribute: 0x41, text: (0..n - 1).map(|i| (b'A' + (i % 26) as u8) as char).collect() };
                let mut f = Box::pin(tr.write_packet(&p));
                matches!(drive(f.as_mut()), Driven::Done(Ok(())))
            }
        });
        let written = sink.st.borrow().written.clone();
        let key = format!("c04/header/len={n}");
        if r != Ok(true) {
            acc.violation(viol(key, format!("writing a packet with a body of {n} bytes failed: {r:?}"), n as u64));
            continue;
        }
        let mut want_hdr = if n == 0 { vec![0x06, 0x0f] } else { vec![0x06, 0xd1] };
        want_hdr.extend(apdu_len(n).unwrap());
        if written.len() != want_hdr.len() + n || written[..want_hdr.len()] != want_hdr[..] {
            acc.violation(viol(
                key.clone(),
                format!("body of {n} bytes: the writer emitted header {} ({} bytes in total), the format's header is {}", hex(&written[..written.len().min(5)]), written.len(), hex(&want_hdr)),
                n as u64,
            ));
        }
        // read it back, followed by a sentinel
        let mut stream = written.clone();
        stream.extend([0x06, 0x1e, 0x01, 0x6c]);
        let mut c2 = Ctx::new(vec![], vec![], 0);
        let o = execute(&mut c2, &stream, None, Chunking::Greedy, 2);
        let ok = match (&o.results.first(), &o.results.get(1)) {
            (Some(Ok(a)), Some(Ok(b))) => {
                let a_ok = if n == 0 { a.starts_with("CompletionData(") } else { a.starts_with("PrintLine(PrintLine { attribute: 65, text: \"") && a.len() == "PrintLine(PrintLine { attribute: 65, text: \"".len() + (n - 1) + "\" })".len() };
                a_ok && b == "Abort(Abort { error: 108 })" && o.consumed_after[0] == written.len() && o.consumed_after[1] == stream.len()
            }
            _ => false,
        };
        if !ok {
            acc.violation(viol(
                key,
                format!(
                    "body of {n} bytes: written header {}, reading it back followed by a sentinel gave {:?} (consumed {:?}, packet is {} bytes)",
                    hex(&written[..written.len().min(5)]),
                    o.results.iter().map(|r| r.as_ref().map(|s| s.chars().take(50).collect::<String>()).map_err(|e| e.chars().take(80).collect::<String>())).collect::<Vec<_>>(),
                    o.consumed_after,
                    written.len()
                ),
                n as u64,
            ));
        } else {
            acc.count("header_agreed", 1);
            if n >= 255 {
                acc.witness("extended length header written and read back");
            }
        }
        drop(sink);
        let _ = sh;
    }
}

pub fn run(run: &RunInfo) -> Summary {
    let thorough = run.thorough();
    let alpha = alphabet();
    // all sequences of k <= 3 packets
    let mut seqs: Vec<Vec<usize>> = vec![];
    for a in 0..alpha.len() {
        seqs.push(vec![a]);
        for b in 0..alpha.len() {
            seqs.push(vec![a, b]);
            for c in 0..alpha.len() {
                seqs.push(vec![a, b, c]);
            }
        }
    }
    let budget = if thorough { 3 } else { 2 };
    enum W {
        Seq(usize),
        Header(usize),
        Acked(usize, usize),
        Foreign(usize, usize),
    }
    let mut work: Vec<W> = (0..seqs.len()).map(W::Seq).collect();
    let lens: Vec<usize> = if thorough {
        (0..=65535).collect()
    } else {
        let mut v: Vec<usize> = (0..=700).collect();
        v.extend((0..=65535usize).filter(|n| n % 251 == 0 || n & 0xff == 0xff || n & 0xff == 0 || n & 0xff == 1));
        v.extend(65000..=65535);
        v.sort();
        v.dedup();
        v
    };
    // first packets for the acknowledged forms: the acknowledgement, negative acknowledgements and the alphabet
    let mut firsts: Vec<(String, Vec<u8>)> = vec![("ack".into(), vec![0x80, 0, 0]), ("nack-849a".into(), vec![0x84, 0x9a, 0]), ("nack-8400".into(), vec![0x84, 0, 0])];
    firsts.extend(alpha.iter().map(|(n, b)| (n.to_string(), b.clone())));
    for f in 0..firsts.len() {
        for sec in [0usize, 1, 6] {
            work.push(W::Acked(f, sec));
        }
    }
    // packets outside the reply enum of the reader: status information with bodies of several sizes, a
    // negative acknowledgement, an acknowledgement, an unknown control field with a 300-byte body
    let foreigns: Vec<(String, Vec<u8>)> = {
        let mk = |c: u8, i: u8, n: usize| -> Vec<u8> {
            let mut p = vec![c, i];
            p.extend(apdu_len(n).unwrap());
            p.extend((0..n).map(|k| (k * 5 + 1) as u8));
            p
        };
        vec![("status-0".into(), mk(0x04, 0x0f, 0)), ("status-2".into(), vec![0x04, 0x0f, 0x02, 0x27, 0x00]), ("nack".into(), vec![0x84, 0x9a, 0x00]), ("ack".into(), vec![0x80, 0x00, 0x00]), ("unknown-1".into(), mk(0x0f, 0x0f, 1)), ("unknown-254".into(), mk(0x0f, 0x0f, 254)), ("unknown-255".into(), mk(0x0f, 0x0f, 255)), ("unknown-300".into(), mk(0x06, 0xd8, 300))]
    };
    for f in 0..foreigns.len() {
        for a in [0usize, 1, 2, 6] {
            work.push(W::Foreign(f, a));
        }
    }
    let chunks: Vec<&[usize]> = lens.chunks(256).collect();
    for i in 0..chunks.len() {
        work.push(W::Header(i));
    }
    let mut acc = par_for(work.len(), |ix, acc| match &work[ix] {
        W::Seq(si) => {
            let seq = &seqs[*si];
            let pkts: Vec<Vec<u8>> = seq.iter().map(|i| alpha[*i].1.clone()).collect();
            let name: String = seq.iter().map(|i| alpha[*i].0).collect::<Vec<_>>().join("+");
            let total: usize = pkts.iter().map(|p| p.len()).sum();
            if skip_for_replay(run, &format!("c04/{name}/")) {
                return;
            }
            if total <= if thorough { 16 } else { 12 } {
                // every way of splitting the data, with a Pending before any subset of polls
                check_stream(&name, &pkts, Chunking::All, 0, false, acc);
                acc.witness("all chunkings of a short stream explored");
            } else if seq.len() <= 2 || thorough {
                check_stream(&name, &pkts, Chunking::Deviations, budget, false, acc);
            } else {
                check_stream(&name, &pkts, Chunking::Deviations, 1, false, acc);
            }
            // one failing read at every byte offset
            if seq.len() <= 2 && total <= 300 {
                check_transient("c04", &name, &pkts, if seq.len() == 1 || thorough { 1 } else { 0 }, acc);
            }
            // end of stream at every byte offset (default chunking, plus one deviation for short ones)
            if seq.len() <= 2 || thorough {
                check_stream(&name, &pkts, Chunking::Deviations, if total <= 300 { 1 } else { 0 }, true, acc);
            }
        }
        W::Header(ci) => {
            if !skip_for_replay(run, "c04/header") {
                header_agreement(chunks[*ci], acc)
            }
        }
        W::Foreign(f, a) => {
            let name = format!("{}+{}+{}", alpha[1].0, foreigns[*f].0, alpha[*a].0);
            if !skip_for_replay(run, &format!("c04/foreign-between/{name}/")) {
                check_foreign_between(&name, &alpha[1].1, &foreigns[*f].1, &alpha[*a].1, acc);
            }
        }
        W::Acked(f, sec) => {
            let name = format!("{}+{}", firsts[*f].0, alpha[*sec].0);
            if !skip_for_replay(run, &format!("c04/acknowledged/{name}/")) {
                check_acknowledged(&name, &firsts[*f].1, &alpha[*sec].1, acc);
            }
        }
    });
    if acc.get("foreign_between_ok") > 0 {
        acc.witness("a packet outside the reader's reply set was refused and read to its boundary");
    }
    if acc.get("ack_accepted") > 0 && acc.get("read_acknowledged") > 0 && acc.get("ack_errors") > 0 {
        acc.witness("acknowledged forms: accepted, acknowledged and failed cases seen");
    }
    if acc.get("eof_errors") > 0 {
        acc.witness("end of stream inside a packet reported as an error");
    }
    if acc.get("chunked_executions") > 0 {
        acc.witness("partial reads and Pending wake-ups exercised");
    }
    acc.sample(json!({"stream": "completion-empty+abort-6c+status-17", "bytes": "060f00061e016c04ff0117", "chunking": "every split, Pending before any poll"}));
    acc.sample(json!({"stream": "printline-255", "end_of_stream_at": 4, "expected": "error, never a packet"}));
    acc.sample(json!({"header_agreement": "body length 255", "header": "06d1ffff00"}));
    let execs = acc.get("executions");
    acc.count("evaluations", execs);
    let caps = if acc.get("capped") > 0 { vec![format!("{} explorations hit the execution cap", acc.get("capped"))] } else { vec![] };
    Summary {
        states: acc.set_len("outcomes").max(1),
        transitions: acc.get("transitions") + acc.get("header_cases"),
        traces_validated: execs,
        distinct_nontrivial: acc.set_len("outcomes") + acc.get("header_agreed"),
        rule: format!("all sequences of k<=3 packets over a 9-packet alphabet (empty body, 1-2 byte bodies, bodies of 253/254/255/256/300 bytes): for streams of <=12 (thorough: 16) bytes every partition into read() results with a Pending+wake before any subset of polls; for longer streams every placement of <= {budget} deviations (1-byte, half, all-but-one read, Pending); end of stream, and a connection reset, at every byte offset; the acknowledged forms write_packet_with_ack / read_packet_with_ack over 12 first packets (acknowledgement, two negative acknowledgements, the alphabet) x 3 following packets x end of stream / reset at every offset of the first packet and the next header x one read deviation, and with a broken writing side; for every stream of k<=2 packets up to 300 bytes one read failing with an I/O error (Interrupted, WouldBlock, TimedOut, Other) after every byte count, the read before it ending exactly there, with one further read deviation (k=1; thorough: k=2 too): an error may surface but every packet returned is the right one, consumed to its end; 8 packets outside the reader's reply enum (bodies of 0..300 bytes) between two packets it knows, one read deviation: an error, and exactly that packet consumed; a packet refused by an acknowledged form is consumed to its end as well; writer/reader header agreement for {} body lengths with a sentinel packet behind. distinct_nontrivial = distinct (stream, end position, result list) outcomes + agreeing body lengths", lens.len()),
        exhaustive: true,
        required_witnesses: vec![
            "all chunkings of a short stream explored".into(),
            "end of stream inside a packet reported as an error".into(),
            "partial reads and Pending wake-ups exercised".into(),
            "extended length header written and read back".into(),
            "acknowledged forms: accepted, acknowledged and failed cases seen".into(),
            "a packet outside the reader's reply set was refused and read to its boundary".into(),
        ],
        assumptions: vec!["I/O errors other than end of stream are not injected here (C06, C09)".into()],
        bounds: json!({"packets_per_stream": 3, "deviation_budget": budget, "header_lengths": lens.len()}),
        caps_hit: caps,
        evaluations_counter: "evaluations".into(),
        acc,
    }
}
