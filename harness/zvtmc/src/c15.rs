//! C15 - replies are dispatched solely by their class and instruction bytes.
use crate::real::*;
use crate::util::*;
use serde_json::json;
use vcore::codec::*;
use vcore::layout::*;
use vcore::report::*;
use vcore::values::*;

/// bodies: (label, body bytes)
fn bodies(table: &Table, thorough: bool) -> Vec<(String, Vec<u8>)> {
    let codec = Codec::new(table);
    let mut out: Vec<(String, Vec<u8>)> = vec![("empty".into(), vec![])];
    for ty in table.commands() {
        let mut vals: Vec<(String, Val)> = vec![("baseline".into(), baseline(table, ty))];
        for pick in 0..2 {
            vals.push((format!("all-present-{pick}"), all_present(table, ty, pick, 2)));
        }
        // bodies on both sides of the 254/255 switch of the APDU length
        for (li, path) in variable_leaves(table, ty).iter().enumerate() {
            if li >= 2 && !thorough {
                break;
            }
            for n in (200..=300).chain([1068usize]) {
                let v = sized(table, ty, path, n);
                if let Ok(b) = codec.encode_struct(ty, &v) {
                    if (253..=258).contains(&b.len()) || b.len() > 1000 {
                        vals.push((format!("sized-{li}-{n}"), v));
                    }
                }
            }
        }
        for (label, v) in vals {
            if codec.canonical(ty, &v).is_none() {
                continue;
            }
            if let Ok(b) = codec.encode_struct(ty, &v) {
                out.push((format!("{}:{label}", ty.key), b));
            }
        }
    }
    out.sort_by(|a, b| a.1.cmp(&b.1));
    out.dedup_by(|a, b| a.1 == b.1);
    out
}

fn frame(class: u8, instr: u8, body: &[u8]) -> Vec<u8> {
    let mut p = vec![class, instr];
    p.extend(apdu_len(body.len()).unwrap());
    p.extend_from_slice(body);
    p
}

pub fn run(run: &RunInfo) -> Summary {
    let table = shipped();
    let ens = enums();
    let reply = reply_table();
    let reg = registry();
    let bods = bodies(&table, run.thorough());
    let one_byte: Vec<Vec<u8>> = (0..=255u8).map(|b| vec![b]).collect();
    // items: (enum index, class)
    let items: Vec<(usize, u8)> = (0..ens.len()).flat_map(|e| (0..=255u8).map(move |c| (e, c))).collect();
    let mut acc = par_for(items.len(), |ix, acc| {
        let (ei, class) = items[ix];
        let en = &ens[ei];
        let variants = &reply.iter().find(|(k, _)| *k == en.key).unwrap_or_else(|| panic!("no reply table entry for {}", en.key)).1;
        for instr in 0..=255u8 {
            // the variant the table assigns to this control field (first match, as listed)
            let target = variants.iter().find(|(_, tk)| table.get(tk).ctrl == Some((class, instr)));
            // neighbours: one byte differing from a listed control field
            let near = variants.iter().any(|(_, tk)| {
                let (c, i) = table.get(tk).ctrl.unwrap();
                (c == class) != (i == instr)
            });
            let mut check = |label: &str, body: &[u8], acc: &mut Acc| {
                acc.count("cases", 1);
                acc.count("calls", 1);
                let input = frame(class, instr, body);
                let key = format!("c15/{}/{class:02x}{instr:02x}/{label}", en.key);
                let got = guarded(|| (en.parse)(&input));
                match (target, got) {
                    (_, Err(p)) => acc.violation(viol(key, format!("{}::zvt_parse({}) panicked: {p}", en.key, hex_short(&input)), input.len() as u64)),
                    (None, Ok(Err(_))) => acc.count("foreign_rejected", 1),
                    (None, Ok(Ok(d))) => acc.violation(viol(
                        key,
                        format!("{}::zvt_parse({}) = {d}, but control field {class:02x} {instr:02x} is outside the reply set: expected an error", en.key, hex_short(&input)),
                        input.len() as u64,
                    )),
                    (Some((variant, tk)), Ok(got)) => {
                        acc.count("calls", 1);
                        let real = reg.iter().find(|r| r.key == *tk).unwrap();
                        let alone = guarded(|| (real.decode)(&input));
                        let want: Result<String, String> = match alone {
                            Err(p) => Err(format!("(the packet type's own decoder panicked: {p})")),
                            Ok(Ok((dbg, _, _))) => Ok(format!("{variant}({dbg})")),
                            Ok(Err(e)) => Err(format!("{e:?}")),
                        };
                        let got_s: Result<String, String> = got.map_err(|e| format!("{e:?}"));
                        if want != got_s {
                            acc.violation(viol(
                                key,
                                format!("{}::zvt_parse({})\n  returned : {got_s:?}\n  expected : {want:?} (variant {variant} with what {tk} decodes on its own)", en.key, hex_short(&input)),
                                input.len() as u64,
                            ));
                        } else if want.is_ok() {
                            acc.count("variant_agreed", 1);
                            acc.set("variants", h64(&(en.key, *variant)));
                        } else {
                            acc.count("variant_error_agreed", 1);
                        }
                    }
                }
            };
            for (label, b) in &bods {
                check(label, b, acc);
            }
            if target.is_some() || near {
                for b in &one_byte {
                    check(&format!("byte-{:02x}", b[0]), b, acc);
                }
            }
        }
    });
    // dispatch behind the real transport when a single read of the connection fails: whatever the
    // reader does about the error, a reply it hands out must be one the terminal sent (its control
    // field, its content) - payload bytes of a packet must never be dispatched as a control field
    if !skip_for_replay(run, "c15/transient/") {
        let streams: Vec<(&str, Vec<Vec<u8>>)> = vec![
            ("printline+printline-carrying-a-completion", vec![vec![0x06, 0xd1, 0x08, 0x00, b'a', b'b', b'c', b'd', b'e', b'f', b'g'], vec![0x06, 0xd1, 0x04, 0x00, 0x06, 0x0f, 0x00]]),
            ("printline-carrying-an-abort+completion", vec![vec![0x06, 0xd1, 0x05, 0x01, 0x06, 0x1e, 0x01, 0x6c], vec![0x06, 0x0f, 0x00]]),
            ("intermediate+abort", vec![vec![0x04, 0xff, 0x01, 0x06], vec![0x06, 0x1e, 0x01, 0x0f]]),
        ];
        let part = par_for(streams.len(), |ix, acc| {
            let before = acc.get("executions");
            crate::c04::check_transient("c15", streams[ix].0, &streams[ix].1, 1, acc);
            let n = acc.get("executions") - before;
            acc.count("cases", n);
            acc.count("calls", n);
            acc.count("transient_cases", n);
        });
        acc.merge(part);
    }
    // inputs shorter than two bytes
    for en in &ens {
        let mut shorts: Vec<Vec<u8>> = vec![vec![]];
        shorts.extend((0..=255u8).map(|b| vec![b]));
        for s in shorts {
            acc.count("cases", 1);
            acc.count("calls", 1);
            match guarded(|| (en.parse)(&s)) {
                Ok(Err(_)) => acc.count("short_rejected", 1),
                other => acc.violation(viol(format!("c15/{}/short/{}", en.key, hex(&s)), format!("{}::zvt_parse({}) = {other:?}, expected an error", en.key, hex(&s)), 0)),
            }
        }
    }
    // ---- through the transport: what a reply parser is given is exactly one packet of the stream,
    // however the stream is cut into reads (DESIGN 13.5)
    {
        let work: Vec<(usize, usize)> = (0..ens.len()).flat_map(|e| (0..reply.iter().find(|(k, _)| *k == ens[e].key).unwrap().1.len()).map(move |v| (e, v))).collect();
        let sub = par_for(work.len(), |ix, acc| {
            let (ei, vi) = work[ix];
            let en = &ens[ei];
            let variants = &reply.iter().find(|(k, _)| *k == en.key).unwrap().1;
            let (vname, tk) = variants[vi];
            let (class, instr) = table.get(tk).ctrl.unwrap();
            let own: Vec<&(String, Vec<u8>)> = bods.iter().filter(|(l, _)| l.starts_with(&format!("{tk}:"))).collect();
            // second packets: the first variant's baseline, and a packet outside the reply set
            let (c0, i0) = table.get(variants[0].1).ctrl.unwrap();
            let base0 = bods.iter().find(|(l, _)| *l == format!("{}:baseline", variants[0].1)).map(|(_, b)| b.clone()).unwrap_or_default();
            let seconds = [frame(c0, i0, &base0), frame(0x0f, 0x0f, &[1, 2, 3])];
            for (label, body) in own {
                let first = frame(class, instr, body);
                for second in &seconds {
                    let mut stream = first.clone();
                    stream.extend_from_slice(second);
                    let want: Vec<(Result<String, ()>, usize)> = {
                        let a = (en.parse)(&first).map_err(|_| ());
                        let mut w = vec![(a.clone(), first.len())];
                        if a.is_ok() {
                            w.push(((en.parse)(second).map_err(|_| ()), stream.len()));
                        }
                        w
                    };
                    let st = vcore::dbx::explore(1, 1_000_000, |ctx| {
                        let sh: crate::sim::Sh = std::rc::Rc::new(std::cell::RefCell::new(std::mem::replace(ctx, vcore::dbx::Ctx::new(vec![], vec![], 0))));
                        let got = (en.read)(sh.clone(), &stream, 2);
                        *ctx = std::rc::Rc::try_unwrap(sh).ok().expect("context still shared").into_inner();
                        acc.count("cases", 1);
                        acc.count("calls", got.len() as u64);
                        acc.count("transport_executions", 1);
                        let got_n: Vec<(Option<Result<String, ()>>, usize)> = got.iter().map(|(r, p)| (r.clone().map(|x| x.map_err(|_| ())), *p)).collect();
                        let want_n: Vec<(Option<Result<String, ()>>, usize)> = want.iter().map(|(r, p)| (Some(r.clone()), *p)).collect();
                        // after an error the stream position is not defined by the statement
                        let same = got_n.len() == want_n.len() && got_n.iter().zip(&want_n).all(|(g, w)| g.0 == w.0 && (g.0 != Some(Err(())) && g.1 == w.1 || g.0 == Some(Err(()))));
                        if same {
                            acc.count("transport_agreed", 1);
                            if ctx.deviations > 0 {
                                acc.count("transport_split_agreed", 1);
                            }
                            if body.len() >= 255 {
                                acc.count("transport_extended_agreed", 1);
                            }
                        } else {
                            acc.violation(viol(
                                format!("c15/{}/transport/{vname}/{label}/second={}/choices={:?}", en.key, hex_short(&second[..2]), ctx.choices()),
                                format!("{}: two packets read through PacketTransport::read_packet from one stream\n  packet 1 : {}\n  packet 2 : {}\n  reads    : {:?}\n  returned : {got:?}\n  expected : {want:?} (what the parser gives for exactly each packet, and the stream offset after it)", en.key, hex_short(&first), hex_short(second), ctx.trace.iter().filter(|c| c.taken != 0).map(|c| (c.label, c.taken)).collect::<Vec<_>>()),
                                ctx.deviations as u64,
                            ));
                        }
                    });
                    acc.max("transport_max_depth", st.max_depth);
                }
            }
        });
        acc.merge(sub);
    }
    // ---- inside the sequences: the first reply of every command with every control field. Outside
    // the command's reply set the sequence must report an error and nothing else - it must not skip,
    // acknowledge or reinterpret the packet.
    {
        use crate::sim::*;
        let defs = crate::seqs::sequences();
        let silencer = crate::wf::silence_stdout();
        let root = crate::wf::scratch_root("c15");
        let dir = crate::wf::make_dir(&root, 0, &[(0x10, 17)], false, run.seed);
        let nseq = defs.len() + 1;
        let sub = par_for(nseq * 16, |ix, acc| {
            let (si, part) = (ix / 16, ix % 16);
            let (name, enum_key) = if si < defs.len() { (defs[si].name, defs[si].reply_enum) } else { ("WriteFile", "WriteFileResponse") };
            let variants = &reply.iter().find(|(k, _)| *k == enum_key).unwrap().1;
            let set: Vec<(u8, u8)> = variants.iter().map(|(_, tk)| table.get(tk).ctrl.unwrap()).collect();
            let cmd = if si < defs.len() { Some(crate::seqs::command_value(&table, &defs[si]).0) } else { None };
            for class in (part * 16)..(part * 16 + 16) {
                for instr in 0..=255u8 {
                    let class = class as u8;
                    if set.contains(&(class, instr)) {
                        continue;
                    }
                    for body in [&[][..], &[0x00][..]] {
                        let mut incoming = vec![0x80, 0x00, 0x00];
                        incoming.extend(frame(class, instr, body));
                        incoming.extend([0x06, 0x0f, 0x00]);
                        let sh: Sh = std::rc::Rc::new(std::cell::RefCell::new(vcore::dbx::Ctx::new(vec![], vec![], 0)));
                        let s = Scripted::new(sh, incoming.clone(), Chunking::Greedy);
                        s.st.borrow_mut().eof_at = Some(incoming.len());
                        let log = match &cmd {
                            Some(v) => (defs[si].run)(v, &s, None),
                            None => crate::wf::run_writefile(&dir.path, 123456, 8, &s, None),
                        };
                        acc.count("cases", 1);
                        acc.count("calls", 1);
                        acc.count("sequence_foreign_cases", 1);
                        let acks = {
                            let st = s.st.borrow();
                            st.log.iter().filter(|e| matches!(e, Ev::Write(w) if w[..] == [0x80, 0x00, 0x00])).count()
                        };
                        let good = log.panic.is_none() && log.items.len() == 1 && log.items[0].is_err() && log.ended && acks == 0;
                        if good {
                            acc.count("sequence_foreign_rejected", 1);
                        } else {
                            acc.violation(viol(
                                format!("c15/sequence/{name}/{class:02x}{instr:02x}/{}", hex(body)),
                                format!("sequence {name}: the terminal answers the command with {} ({class:02x} {instr:02x} is outside the reply set of {enum_key}), then a completion\nexpected exactly one error and no acknowledgement; got items {:?}, ended={}, acknowledgements written={acks}, panic={:?}", hex(&frame(class, instr, body)), log.items.iter().map(|i| i.as_ref().map(|s| s.chars().take(40).collect::<String>()).map_err(|e| e.chars().take(60).collect::<String>())).collect::<Vec<_>>(), log.ended, log.panic),
                                1,
                            ));
                        }
                    }
                }
            }
        });
        acc.merge(sub);
        let _ = std::fs::remove_dir_all(&root);
        drop(silencer);
    }
    if acc.get("sequence_foreign_rejected") > 0 {
        acc.witness("control fields outside the reply set were refused by the sequences themselves");
    }
    // the acknowledgement of a command is a reply like any other: through write_packet_with_ack every
    // control field (empty body and a one-byte body) must be accepted exactly when the Ack parser accepts it
    {
        let ack = ens.iter().find(|e| e.key == "Ack").unwrap();
        let sub = par_for(256, |class, acc| {
            for instr in 0..=255u8 {
                for body in [&[][..], &[0x6c][..]] {
                    let reply = frame(class as u8, instr, body);
                    let want = (ack.parse)(&reply).is_ok();
                    acc.count("cases", 1);
                    acc.count("calls", 1);
                    match guarded(|| command_acknowledged_by(&reply)) {
                        Ok((Some(got), used)) if got == want && used == reply.len() => {
                            acc.count(if want { "ack_accepted" } else { "ack_rejected" }, 1);
                        }
                        other => acc.violation(viol(
                            format!("c15/Ack/acknowledgement/{class:02x}{instr:02x}/{}", hex(body)),
                            format!("write_packet_with_ack with the reply {}: expected {} (what the Ack parser says about this packet) and {} bytes consumed, got {other:?}", hex(&reply), if want { "success" } else { "an error" }, reply.len()),
                            reply.len() as u64,
                        )),
                    }
                }
            }
        });
        acc.merge(sub);
    }
    if acc.get("ack_accepted") > 0 && acc.get("ack_rejected") > 0 {
        acc.witness("acknowledgements of commands were accepted and foreign packets in their place rejected");
    }
    if acc.get("transport_split_agreed") > 0 && acc.get("transport_extended_agreed") > 0 {
        acc.witness("replies read through the transport with split reads and extended lengths were dispatched by their own control field");
    }
    let nvariants: u64 = reply.iter().map(|(_, v)| v.len() as u64).sum();
    if acc.set_len("variants") == nvariants {
        acc.witness("every variant of every reply enum was returned for its own control field");
    } else {
        acc.notes.push(format!("variants returned: {} of {}", acc.set_len("variants"), nvariants));
    }
    if acc.get("foreign_rejected") > 0 {
        acc.witness("foreign control fields rejected");
    }
    acc.sample(json!({"enum": "ReadCardResponse", "input": "061e016c", "expected": "Abort(Abort { error: 108 })"}));
    acc.sample(json!({"enum": "RegistrationResponse", "input": "061e016c", "expected": "error (outside the reply set)"}));
    let cases = acc.get("cases");
    acc.count("evaluations", cases);
    Summary {
        states: cases,
        transitions: acc.get("calls"),
        traces_validated: acc.get("variant_agreed") + acc.get("variant_error_agreed"),
        distinct_nontrivial: acc.get("variant_agreed") + acc.get("variant_error_agreed"),
        rule: format!("(besides the parser sweep below: three two-packet streams whose payloads contain control fields of other replies, read through the real transport with one read failing with Interrupted / WouldBlock / TimedOut / Other after every byte count and one further read deviation - every reply handed out must be the packet at that position) 17 reply enums x all 65,536 (class, instr) pairs x {} bodies (empty, baseline / all-present / 253..258-byte and >1000-byte bodies of every shipped command); all 256 one-byte bodies for the listed control fields and their one-byte neighbours; all inputs of length 0 and 1; through PacketTransport::read_packet: for every variant of every enum every body of its packet type followed by a second packet (inside / outside the reply set), every placement of one short read or pending poll (1 byte, half, all but one, pending); all 65,536 control fields x 2 bodies in the place of a command's acknowledgement through write_packet_with_ack; every control field outside the reply set (two bodies) as the first reply of each of the 17 sequences and of the firmware upload: one error, no acknowledgement. distinct_nontrivial = cases with a listed control field in which the parser agreed with the packet type's own decoder", bods.len()),
        exhaustive: true,
        required_witnesses: vec!["every variant of every reply enum was returned for its own control field".into(), "foreign control fields rejected".into(), "replies read through the transport with split reads and extended lengths were dispatched by their own control field".into(), "acknowledgements of commands were accepted and foreign packets in their place rejected".into(), "control fields outside the reply set were refused by the sequences themselves".into()],
        assumptions: vec!["reply table = DESIGN.md Appendix B (hand written)".into(), "bodies from a finite alphabet".into()],
        bounds: json!({"control_fields": "all 65536 per enum", "bodies": bods.len()}),
        caps_hit: vec![],
        evaluations_counter: "evaluations".into(),
        acc,
    }
}
