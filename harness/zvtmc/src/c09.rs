//! C09 - a connection that saw a failure is never reused; fresh ones are vetted.
use crate::client::*;
use crate::scen::*;
use crate::sim::Sh;
use crate::simterm::*;
use crate::util::*;
use serde_json::json;
use std::cell::RefCell;
use std::rc::Rc;
use std::time::Duration;
use vcore::dbx::{self, Ctx};
use vcore::report::*;

pub const KINDS: [&str; 11] = ["close-behind", "close", "partial-close", "reset", "garbage", "foreign", "nack", "silence", "late", "just-in-time", "serial"];

/// Applies at most one fault per call: every packet of `steps` is a choice point.
pub fn inject(steps: Vec<Step>, ctx: &mut Ctx, x: Xch, timeout_ms: u64, table: &'static vcore::layout::Table) -> Vec<Step> {
    let r = Replies { table };
    let mut out: Vec<Step> = vec![];
    let mut it = steps.into_iter();
    while let Some(st) = it.next() {
        let (bytes, label, gated) = match &st {
            Step::Packet(b, l) => (b.clone(), l.clone(), true),
            Step::Raw(b, l) => (b.clone(), l.clone(), false),
            _ => {
                out.push(st);
                continue;
            }
        };
        let mut alts: Vec<&str> = vec!["close", "partial-close", "reset", "garbage", "foreign", "nack", "silence", "late", "just-in-time", "close-behind"];
        if label == "system-info" && x == Xch::H2 {
            alts.push("wrong-serial");
            alts.push("case-serial");
            alts.push("identity-refused");
        }
        let c = ctx.dev(1 + alts.len(), "fault");
        if c == 0 {
            out.push(st);
            continue;
        }
        let kind = alts[c - 1];
        let same = |b: Vec<u8>, l: String| if gated { Step::Packet(b, l) } else { Step::Raw(b, l) };
        match kind {
            "close" => out.extend([Step::Note("fault:close".into()), Step::Close]),
            "reset" => out.extend([Step::Note("fault:reset".into()), Step::Reset]),
            // the packet is delivered in full and the terminal hangs up right behind it: the client's
            // acknowledgement (or next command) cannot be written any more
            "close-behind" => out.extend([Step::Note("mode:close-eagerly".into()), Step::Note("fault:close-behind".into()), Step::Raw(bytes, label), Step::Close]),
            "partial-close" => out.extend([Step::Note("fault:partial-close".into()), Step::Raw(bytes[..(bytes.len() / 2).max(1)].to_vec(), "partial".into()), Step::Close]),
            "garbage" => {
                let body: Vec<u8> = if bytes[..2] == [0x06, 0x0f] || bytes[..2] == [0x04, 0x0f] { vec![0x27] } else if bytes[..2] == [0x80, 0x00] { vec![] } else { vec![] };
                let mut g = if bytes[..2] == [0x80, 0x00] { vec![0x80, 0x01] } else { bytes[..2].to_vec() };
                g.push(body.len() as u8);
                g.extend(body);
                out.extend([Step::Note("fault:garbage".into()), Step::Raw(g, "garbage".into()), Step::Silence]);
            }
            "foreign" => out.extend([Step::Note("fault:foreign".into()), Step::Raw(vec![0x06, 0xd8, 0x00], "foreign".into()), Step::Silence]),
            "nack" => out.extend([Step::Note("fault:nack".into()), Step::Raw(vec![0x84, 0x9c, 0x00], "nack".into()), Step::Silence]),
            "silence" => out.extend([Step::Note("fault:silence".into()), Step::Silence]),
            "late" => {
                out.extend([Step::Note("fault:late".into()), Step::Delay(Duration::from_millis(timeout_ms + 1)), same(bytes, label)]);
                out.extend(it);
                return out;
            }
            "just-in-time" => {
                out.extend([Step::Note("delay:just-in-time".into()), Step::Delay(Duration::from_millis(timeout_ms - 1)), same(bytes, label)]);
                out.extend(it);
                return out;
            }
            "wrong-serial" => {
                out.extend([Step::Note("serial:wrong".into()), r.system_info("17FD1E3D", TERMINAL_ID)]);
                out.extend(it);
                return out;
            }
            "identity-refused" => {
                // the terminal answers the identity check with an abort: a reply of the set, but no identity
                let code = [0x6cu8, 0x83, 0x00, 0xff][ctx.any(4, "refusal-code")];
                out.extend([Step::Note("serial:refused".into()), r.abort(code)]);
                out.extend(it);
                return out;
            }
            "case-serial" => {
                out.extend([Step::Note("serial:case".into()), r.system_info(&SERIAL.to_lowercase(), TERMINAL_ID)]);
                out.extend(it);
                return out;
            }
            _ => unreachable!(),
        }
        return out;
    }
    out
}

fn scenarios() -> Vec<(&'static str, usize, Vec<Op>)> {
    let a = || "A".to_string();
    let b = || "B".to_string();
    vec![
        ("read_card", 1, vec![Op::ReadCard]),
        ("begin", 1, vec![Op::Begin(a())]),
        ("commit-idle", 1, vec![Op::Begin(a()), Op::Commit(a(), 1295)]),
        ("cancel-idle", 1, vec![Op::Begin(a()), Op::Cancel(a())]),
        ("commit-non-idle", 2, vec![Op::Begin(a()), Op::Begin(b()), Op::Commit(a(), 1295)]),
        ("cancel-non-idle", 2, vec![Op::Begin(a()), Op::Begin(b()), Op::Cancel(a())]),
        ("configure", 1, vec![Op::Configure]),
    ]
}

/// the oracle on the global connection log
pub fn verify(t: &TermState, cfg: &zvt_feig_terminal::config::Config) -> Vec<String> {
    let table = t.table;
    let mut problems = vec![];
    let n = t.conns.len();
    let mut poisoned: Vec<Option<String>> = vec![None; n];
    let mut wrong_serial = vec![false; n];
    let mut dropped = vec![false; n];
    let mut opened = vec![false; n];
    let mut term_closed = vec![false; n];
    let mut cmds: Vec<usize> = vec![0; n];
    // just-in-time delays add up inside one timed scope (the reconnect handshake, or the command
    // plus its first reply): two of them on one connection may legitimately exceed the time-out
    let mut jit: Vec<usize> = vec![0; n];
    let mut last_open: Option<usize> = None;
    for (c, ev) in &t.glog {
        let c = *c;
        match ev {
            ConnEv::Opened => {
                for d in 0..c {
                    if opened[d] && !dropped[d] {
                        problems.push(format!("connection {c} was opened while connection {d} was still held"));
                    }
                }
                if let Some(p) = last_open {
                    let reason = poisoned[p].is_some() || wrong_serial[p] || t.killed.contains(&p) || term_closed[p] || jit[p] >= 2;
                    if !reason {
                        problems.push(format!("the client reconnected (connection {c}) although nothing had failed on connection {p}: a connection whose exchanges completed normally must be reused"));
                    }
                }
                opened[c] = true;
                last_open = Some(c);
            }
            ConnEv::Sent(l) => {
                if let Some(f) = l.strip_prefix("fault:") {
                    poisoned[c] = Some(f.to_string());
                }
                if l == "serial:wrong" || l == "serial:refused" {
                    wrong_serial[c] = true;
                }
                if l == "delay:just-in-time" {
                    jit[c] += 1;
                }
            }
            ConnEv::TermClosed => term_closed[c] = true,
            ConnEv::Dropped => dropped[c] = true,
            ConnEv::ClientAck => {
                if let Some(f) = &poisoned[c] {
                    problems.push(format!("connection {c}: the client acknowledged a packet after the fault '{f}' on this connection"));
                }
            }
            ConnEv::ClientBytes(_) => {}
            ConnEv::Command(key, raw) => {
                if let Some(f) = &poisoned[c] {
                    problems.push(format!("connection {c}: the client sent {key} after the fault '{f}' on this connection (a failed connection must be abandoned)"));
                }
                let val = vcore::codec::Codec::new(table).decode(table.get(key), raw).ok().map(|x| x.0);
                match cmds[c] {
                    0 => {
                        let pw = get_path(table, key, &val, "password");
                        let cur = get_path(table, key, &val, "currency");
                        if key != "Registration" || pw != Some(vcore::codec::Val::Int(cfg.feig_config.password as u64)) || cur != Some(vcore::codec::Val::Int(cfg.feig_config.currency as u64)) {
                            problems.push(format!("connection {c} must start with a registration carrying the configured password and currency, got {key} {}", show_req(table, key, &val)));
                        }
                    }
                    1 => {
                        if key != "feig::CVendFunctions" || get_path(table, key, &val, "instr") != Some(vcore::codec::Val::Int(1)) {
                            problems.push(format!("connection {c}: the second command must be the identity check (CVendFunctions instr 1), got {key} {}", show_req(table, key, &val)));
                        }
                    }
                    _ => {
                        if wrong_serial[c] {
                            problems.push(format!("connection {c}: {key} was sent although the terminal reported a different serial number (or refused to report one)"));
                        }
                    }
                }
                cmds[c] += 1;
            }
        }
    }
    problems
}

/// When an operation returns, the client must not still hold a connection on which a fault
/// occurred during that operation (abandoning is part of handling the failure, not of the next call).
pub fn held_after_fault(t: &TermState, op: &str, out: &mut Vec<String>) {
    for (c, evs) in t.conns.iter().enumerate() {
        let fault = evs.iter().find_map(|e| match e {
            ConnEv::Sent(l) if l.starts_with("fault:") => Some(l.clone()),
            _ => None,
        });
        if let Some(f) = fault {
            if !evs.contains(&ConnEv::Dropped) {
                let msg = format!("{op} returned while the client still held connection {c}, on which '{f}' had occurred");
                if !out.contains(&msg) {
                    out.push(msg);
                }
            }
        }
    }
}

fn render_log(t: &TermState) -> String {
    t.glog
        .iter()
        .map(|(c, e)| match e {
            ConnEv::Command(k, raw) => format!("  conn {c}: client -> {k} {}", hex_short(raw)),
            other => format!("  conn {c}: {other:?}"),
        })
        .collect::<Vec<_>>()
        .join("\n")
}

pub fn run(run: &RunInfo) -> Summary {
    let budget = if run.thorough() { 2 } else { 1 };
    let scs = scenarios();
    let mut acc = par_for(scs.len(), |si, acc| {
        let (name, max, ops) = &scs[si];
        if skip_for_replay(run, &format!("c09/{name}/")) {
            return;
        }
        let st = dbx::explore(budget, 50_000_000, |ctx| {
            let sh: Sh = Rc::new(RefCell::new(std::mem::replace(ctx, Ctx::new(vec![], vec![], 0))));
            let cur_op: Rc<RefCell<Op>> = Rc::new(RefCell::new(Op::Configure));
            let cur2 = cur_op.clone();
            let mut cfg = base_config();
            cfg.transactions_max_num = *max;
            // the configuration: as usual, or without a terminal id and with another password / currency
            if sh.borrow_mut().any(2, "configuration") == 1 {
                cfg.terminal_id = String::new();
                cfg.feig_config.password = 654_321;
                cfg.feig_config.currency = 826;
                acc.count("w_config_variant", 1);
            }
            let rc_to = cfg.feig_config.read_card_timeout as u64;
            // end-of-day either completes or is answered with 'receiver not ready' (A0), which the
            // client tolerates: a normally completed exchange either way
            let eod_a0 = sh.borrow_mut().any(2, "end-of-day-reply") == 1;
            let hook: Hook = Box::new(move |t, ctx, req, x, _nth| {
                let outcome = if eod_a0 && req.key == "EndOfDay" { Outcome::Abort(0xa0) } else { Outcome::Ok };
                let steps = default_script(t, req, &outcome, 1);
                let timeout_ms = if matches!(*cur2.borrow(), Op::ReadCard) { (rc_to + 2) * 1000 } else { 60_000 };
                Some(inject(steps, ctx, x, timeout_ms, t.table))
            });
            let mut results = vec![];
            let mut held: Vec<String> = vec![];
            let mut problems;
            let log;
            {
                let sc = Scenario::new(sh.clone(), hook);
                let mut all_ops = ops.clone();
                all_ops.push(Op::ReadCard);
                match sc.new_feig(cfg.clone()) {
                    Err(e) => {
                        results.push(format!("new -> {e}"));
                        held_after_fault(&sc.sim.w.borrow().t, "Feig::new", &mut held);
                    }
                    Ok(mut feig) => {
                        results.push("new -> ok".into());
                        held_after_fault(&sc.sim.w.borrow().t, "Feig::new", &mut held);
                        for op in &all_ops {
                            // the peer may close the idle connection between two operations
                            if sh.borrow_mut().dev(2, "idle-close") == 1 {
                                let mut w = sc.sim.w.borrow_mut();
                                let live = (0..w.t.conns.len()).rev().find(|c| w.t.conns[*c].first() == Some(&ConnEv::Opened) && !w.t.conns[*c].contains(&ConnEv::Dropped));
                                if let Some(c) = live {
                                    w.t.killed.push(c);
                                    w.t.glog.push((c, ConnEv::Sent("idle-close".into())));
                                }
                            }
                            *cur_op.borrow_mut() = op.clone();
                            let r = sc.run(&mut feig, op);
                            acc.count("transitions", 1);
                            results.push(format!("{} -> {}", op.label(), r.short()));
                            held_after_fault(&sc.sim.w.borrow().t, &op.label(), &mut held);
                            if matches!(r, OpResult::Hung | OpResult::Panicked(_)) {
                                break;
                            }
                        }
                        drop(feig);
                    }
                }
                let w = sc.sim.w.borrow();
                problems = verify(&w.t, &cfg);
                problems.extend(held.iter().cloned());
                log = render_log(&w.t);
                // witnesses
                let faults = w.t.glog.iter().filter(|(_, e)| matches!(e, ConnEv::Sent(l) if l.starts_with("fault:"))).count();
                if faults > 0 && w.t.conns.len() > 1 {
                    acc.count("w_fault_reconnect", 1);
                }
                if w.t.glog.iter().any(|(_, e)| matches!(e, ConnEv::Sent(l) if l == "delay:just-in-time")) && w.t.conns.len() == 1 {
                    acc.count("w_just_in_time_kept", 1);
                }
                if w.t.glog.iter().any(|(_, e)| matches!(e, ConnEv::Sent(l) if l == "serial:wrong")) {
                    acc.count("w_wrong_serial", 1);
                }
                if w.t.glog.iter().any(|(_, e)| matches!(e, ConnEv::Sent(l) if l == "serial:case")) && w.t.conns.len() == 1 {
                    acc.count("w_case_serial_accepted", 1);
                }
                if !w.t.killed.is_empty() {
                    acc.count("w_idle_close", 1);
                }
                if faults == 0 && w.t.killed.is_empty() && w.t.conns.len() == 1 {
                    acc.count("w_clean_history_one_connection", 1);
                }
                acc.set("outcomes", h64(&(name, &results, w.t.conns.len())));
                drop(w);
                drop(sc);
            }
            *ctx = Rc::try_unwrap(sh).ok().expect("context still shared").into_inner();
            acc.count("executions", 1);
            if !problems.is_empty() {
                let choices = ctx.choices();
                acc.violation(viol(
                    format!("c09/{name}/choices={choices:?}"),
                    format!("scenario {name}: new, {}, read_card\nfault choices: {:?}\nresults:\n  {}\nviolations:\n  {}\nconnection log:\n{log}", ops.iter().map(|o| o.label()).collect::<Vec<_>>().join(", "), ctx.trace.iter().filter(|c| c.taken != 0).map(|c| (c.label, c.taken)).collect::<Vec<_>>(), results.join("\n  "), problems.join("\n  ")),
                    ctx.deviations as u64,
                ));
            }
        });
        acc.max("max_depth", st.max_depth);
        acc.max("max_deviations", st.max_deviations);
        if st.capped {
            acc.count("capped", 1);
        }
    });
    // the same oracle over call histories instead of fixed scenarios: all histories of depth 3
    // (thorough 4) over begin / commit / cancel x tokens {A,B} + read_card with one fault (the menu
    // above) at any packet the terminal sends after Feig::new, the connection log judged as above
    if !skip_for_replay(run, "c09/histories/") {
        use crate::hist::*;
        let f_ops = crate::c07::ops(&["A", "B"]);
        let depth = if run.thorough() { 4 } else { 3 };
        let mut work: Vec<(usize, usize)> = vec![];
        for max in 1..=2usize {
            for first in 0..f_ops.len() {
                work.push((max, first));
            }
        }
        let part = par_for(work.len(), |ix, acc| {
            let (max, first) = work[ix];
            let p = HistParams {
                max,
                depth,
                ops: f_ops.clone(),
                dangling: None,
                reservation_menu: vec![Outcome::Ok, Outcome::Abort(0x6c)],
                commit_menu: vec![Outcome::Ok],
                cancel_menu: vec![Outcome::Ok],
                eod_menu: vec![Eod::Completion, Eod::Abort(0xa0)],
                noise: false,
                delay_ms: 0,
                focus19: false,
                rearm_dangling: false,
                faults: true,
            };
            dbx::explore(1, 200_000_000, |ctx| {
                let o = history(ctx, &p, Some(first), acc);
                acc.count("executions", 1);
                acc.count("history_executions", 1);
                if !o.c09.is_empty() {
                    let choices = ctx.choices();
                    acc.violation(viol(
                        format!("c09/histories/max={max}/first={first}/choices={choices:?}"),
                        format!("transactions_max_num = {max}, call history with one fault\nhistory:\n  {}\nviolations:\n  {}", o.trace.join("\n  "), o.c09.join("\n  ")),
                        o.trace.len() as u64,
                    ));
                }
            });
        });
        acc.merge(part);
    }
    // two clients in one process: the identity check of each client uses its own configured serial,
    // whatever other clients of the process are configured with or have met
    if !skip_for_replay(run, "c09/two-clients/") {
        let other = "2AB4C0DE";
        let st = dbx::explore(0, 1_000_000, |ctx| {
            let first_done = ctx.any(3, "first-client-progress");
            let (s2, t2) = [(other, SERIAL), (other, other), (SERIAL, other), (SERIAL, SERIAL), ("2ab4c0de", other), ("1E3C", SERIAL), ("17FD", SERIAL), ("", SERIAL), ("17FD1E3C00", SERIAL), ("7FD1E3C", SERIAL)][ctx.any(10, "second-client")];
            let sh: Sh = Rc::new(RefCell::new(std::mem::replace(ctx, Ctx::new(vec![], vec![], 0))));
            let mut results = vec![];
            let mut problems = vec![];
            let mut log = String::new();
            // client 1, configured for SERIAL and meeting SERIAL
            let cfg1 = base_config();
            let sc1 = Scenario::new(sh.clone(), Box::new(|t, _ctx, req, _x, _nth| Some(default_script(t, req, &Outcome::Ok, 1))));
            let mut feig1 = None;
            if first_done >= 1 {
                match sc1.new_feig(cfg1.clone()) {
                    Ok(f) => feig1 = Some(f),
                    Err(e) => problems.push(format!("first client: Feig::new failed against its own terminal: {e}")),
                }
            }
            if first_done >= 2 {
                if let Some(f) = feig1.as_mut() {
                    results.push(format!("client 1 read_card -> {}", sc1.run(f, &Op::ReadCard).short()));
                }
            }
            problems.extend(verify(&sc1.sim.w.borrow().t, &cfg1).into_iter().map(|p| format!("first client: {p}")));
            // client 2 with its own terminal
            let mut cfg2 = base_config();
            cfg2.feig_serial = s2.to_string();
            let same = s2.eq_ignore_ascii_case(t2);
            let hook: Hook = Box::new(move |t, _ctx, req, x, _nth| {
                let mut steps = default_script(t, req, &Outcome::Ok, 1);
                if x == Xch::H2 && !same {
                    steps.insert(0, Step::Note("serial:wrong".into()));
                }
                Some(steps)
            });
            {
                let sc2 = Scenario::new(sh.clone(), hook);
                sc2.sim.w.borrow_mut().t.serial = t2.to_string();
                match sc2.new_feig(cfg2.clone()) {
                    Err(e) => {
                        results.push(format!("client 2 new -> {e}"));
                        if same {
                            problems.push(format!("second client (configured {s2}, terminal reports {t2}): Feig::new failed although nothing went wrong on the connection: {e}"));
                        }
                    }
                    Ok(mut f) => {
                        results.push("client 2 new -> ok".into());
                        results.push(format!("client 2 read_card -> {}", sc2.run(&mut f, &Op::ReadCard).short()));
                        drop(f);
                    }
                }
                let w = sc2.sim.w.borrow();
                problems.extend(verify(&w.t, &cfg2).into_iter().map(|p| format!("second client (configured {s2}, terminal reports {t2}): {p}")));
                log = render_log(&w.t);
                if !same {
                    acc.count("w_second_client_foreign", 1);
                } else if w.t.conns.len() == 1 {
                    acc.count("w_second_client_own", 1);
                }
                acc.set("outcomes", h64(&("two-clients", &results, w.t.conns.len())));
            }
            drop(feig1);
            drop(sc1);
            *ctx = Rc::try_unwrap(sh).ok().expect("context still shared").into_inner();
            acc.count("executions", 1);
            acc.count("transitions", 2);
            if !problems.is_empty() {
                let choices = ctx.choices();
                acc.violation(viol(
                    format!("c09/two-clients/choices={choices:?}"),
                    format!("two clients in one process: client 1 configured {SERIAL} (progress {first_done}: 0 = constructed nothing, 1 = connected, 2 = ran read_card), client 2 configured {s2} against a terminal reporting {t2}\nresults:\n  {}\nviolations:\n  {}\nconnection log of client 2:\n{log}", results.join("\n  "), problems.join("\n  ")),
                    0,
                ));
            }
        });
        acc.max("max_depth", st.max_depth);
    }
    // every result code as the answer to the identity check, on every connection: no code makes the
    // connection usable
    if !skip_for_replay(run, "c09/identity-refused/") {
        let a = par_for(256, |code, acc| {
            let code = code as u8;
            let mut ctx = Ctx::new(vec![], vec![], 0);
            let sh: Sh = Rc::new(RefCell::new(std::mem::replace(&mut ctx, Ctx::new(vec![], vec![], 0))));
            let hook: Hook = Box::new(move |t, _ctx, req, x, _nth| {
                if x == Xch::H2 {
                    let mut steps = default_script(t, req, &Outcome::Abort(code), 1);
                    steps.insert(0, Step::Note("serial:refused".into()));
                    Some(steps)
                } else {
                    Some(default_script(t, req, &Outcome::Ok, 1))
                }
            });
            let cfg = base_config();
            let sc = Scenario::new(sh.clone(), hook);
            let r = sc.new_feig(cfg.clone());
            let mut problems = verify(&sc.sim.w.borrow().t, &cfg);
            // reconnecting after a refused identity check is expected: drop that complaint
            problems.retain(|p| !p.contains("although nothing had failed"));
            // Feig::new ignores the outcome of its configuration by design; what counts is that no
            // command ever followed a refused identity check
            acc.count("executions", 1);
            acc.count("transitions", 1);
            acc.count("w_identity_refused_sweep", 1);
            if !problems.is_empty() {
                let log = render_log(&sc.sim.w.borrow().t);
                acc.violation(viol(format!("c09/identity-refused/code={code:02X}"), format!("the terminal answers every identity check with abort {code:#04x}\nviolations:\n  {}\nconnection log (start):\n{}", problems.join("\n  "), log.lines().take(30).collect::<Vec<_>>().join("\n")), code as u64));
            }
            drop(r);
            drop(sc);
        });
        acc.merge(a);
    }
    for (c, w) in [
        ("w_second_client_foreign", "a second client of the process met a terminal with the first client's (not its own) serial number"),
        ("w_second_client_own", "a second client of the process was accepted by its own terminal on one connection"),
        ("w_config_variant", "a configuration without terminal id and with a non-default password and currency was used"),
        ("w_fault_reconnect", "a fault was followed by a fresh, vetted connection"),
        ("w_just_in_time_kept", "a reply one millisecond before the time-out kept the connection"),
        ("w_wrong_serial", "a terminal with a different serial number was met"),
        ("w_case_serial_accepted", "a serial number differing only in case was accepted"),
        ("w_idle_close", "the peer closed an idle connection"),
        ("w_clean_history_one_connection", "a fault-free history used a single connection"),
    ] {
        if acc.get(c) > 0 {
            acc.witness(w);
        }
    }
    acc.sample(json!({"scenario": "commit-idle", "fault": "garbage in place of the status information of the partial reversal", "expected": "connection 0 abandoned, connection 1: Registration, CVendFunctions, PartialReversal again"}));
    let execs = acc.get("executions");
    acc.count("evaluations", execs);
    let caps = if acc.get("capped") > 0 { vec!["execution cap hit".to_string()] } else { vec![] };
    Summary {
        states: acc.set_len("outcomes"),
        transitions: acc.get("transitions"),
        traces_validated: execs,
        distinct_nontrivial: acc.set_len("outcomes"),
        rule: format!("real Feig client against the simulated terminal (paused clock): 2 configurations (usual; no terminal id, other password and currency) x end-of-day completing or answered with the tolerated A0 x 7 scenarios (Feig::new, then read_card / begin / commit idle / cancel idle / commit and cancel with another transaction open / configure, then a further read_card) x every placement of <= {budget} fault(s): at every terminal-to-client packet (handshake included) one of close, close after half a packet, reset, undecodable body, foreign control field, NACK, silence, reply 1 ms after / 1 ms before the time-out, wrong serial, serial differing in case, identity check answered with an abort (four codes here, all 256 codes in a separate sweep); and the peer closing the idle connection before any operation; plus all call histories of depth 3 (thorough 4) over begin / commit / cancel x tokens {{A,B}} + read_card with one such fault at any packet the terminal sends after Feig::new; plus two clients in one process (the first at three stages of progress) x 10 pairs of configured / reported serial number of the second (other, equal, equal up to case, and configured serials that are a proper suffix, prefix or extension of the reported one, or empty). Oracle on the global connection log (and, after every call, that no connection that saw a fault is still held)"),
        exhaustive: true,
        required_witnesses: vec![
            "a fault was followed by a fresh, vetted connection".into(),
            "a reply one millisecond before the time-out kept the connection".into(),
            "a terminal with a different serial number was met".into(),
            "a serial number differing only in case was accepted".into(),
            "the peer closed an idle connection".into(),
            "a fault-free history used a single connection".into(),
            "a configuration without terminal id and with a non-default password and currency was used".into(),
            "a second client of the process met a terminal with the first client's (not its own) serial number".into(),
            "a second client of the process was accepted by its own terminal on one connection".into(),
        ],
        assumptions: vec!["a reply exactly at the time-out instant is not tested (tie)".into(), "thorough: all pairs of faults; more than two faults per history are not explored".into()],
        bounds: json!({"fault_budget": budget, "scenarios": scs.len()}),
        caps_hit: caps,
        evaluations_counter: "evaluations".into(),
        acc,
    }
}
