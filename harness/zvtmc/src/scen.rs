//! Scenario policy for the single-operation client checks (C08, C09, C10, C18, C20): the default
//! terminal of DESIGN.md Appendix C with a hook that may replace the answer to any request.
use crate::client::*;
use crate::sim::Sh;
use crate::simterm::*;
use std::cell::RefCell;
use std::rc::Rc;
use vcore::dbx::Ctx;
use zvt_feig_terminal::config::Config;
use zvt_feig_terminal::feig::Feig;

pub type Hook = Box<dyn FnMut(&mut TermState, &mut Ctx, &ReqRec, Xch, usize) -> Option<Vec<Step>>>;

#[derive(Default)]
pub struct ScenSt {
    pub op: Option<Op>,
    pub tracker: Tracker,
    /// (exchange, request index) in arrival order
    pub xlog: Vec<(Xch, usize)>,
    /// number of requests of each exchange kind seen during the current operation
    pub per_op: Vec<(Xch, usize)>,
}

pub struct ScenPolicy {
    pub st: Rc<RefCell<ScenSt>>,
    pub hook: Hook,
    pub connect: Option<Box<dyn FnMut(&mut TermState, &mut Ctx, usize) -> Accept>>,
    pub stall_writes_on: Rc<RefCell<Vec<usize>>>,
}

impl Policy for ScenPolicy {
    fn on_connect(&mut self, t: &mut TermState, ctx: &mut Ctx, conn: usize) -> Accept {
        match &mut self.connect {
            Some(f) => f(t, ctx, conn),
            None => Accept::Yes,
        }
    }
    fn on_command(&mut self, t: &mut TermState, ctx: &mut Ctx, req: &ReqRec) -> Vec<Step> {
        let (x, nth) = {
            let mut st = self.st.borrow_mut();
            let op = st.op.clone().unwrap_or(Op::Configure);
            let x = st.tracker.classify(t.table, &op, req);
            let idx = t.reqs.len() - 1;
            st.xlog.push((x, idx));
            let nth = st.per_op.iter().filter(|(k, _)| *k == x).count();
            st.per_op.push((x, idx));
            (x, nth)
        };
        match (self.hook)(t, ctx, req, x, nth) {
            Some(steps) => steps,
            None => default_script(t, req, &Outcome::Ok, 1),
        }
    }
    fn write_stalled(&mut self, _t: &mut TermState, conn: usize) -> bool {
        self.stall_writes_on.borrow().contains(&conn)
    }
}

pub struct Scenario {
    pub sim: Sim,
    pub st: Rc<RefCell<ScenSt>>,
    pub stall_writes_on: Rc<RefCell<Vec<usize>>>,
}

impl Scenario {
    pub fn new(ctx: Sh, hook: Hook) -> Scenario {
        Self::with_connect(ctx, hook, None)
    }
    pub fn with_connect(ctx: Sh, hook: Hook, connect: Option<Box<dyn FnMut(&mut TermState, &mut Ctx, usize) -> Accept>>) -> Scenario {
        Self::full(ctx, hook, connect, Rc::new(RefCell::new(vec![])))
    }
    pub fn full(ctx: Sh, hook: Hook, connect: Option<Box<dyn FnMut(&mut TermState, &mut Ctx, usize) -> Accept>>, stall: Rc<RefCell<Vec<usize>>>) -> Scenario {
        let st = Rc::new(RefCell::new(ScenSt::default()));
        let sim = Sim::new(ctx, Box::new(ScenPolicy { st: st.clone(), hook, connect, stall_writes_on: stall.clone() }));
        Scenario { sim, st, stall_writes_on: stall }
    }
    pub fn start_op(&self, op: &Op) {
        let mut s = self.st.borrow_mut();
        s.op = Some(op.clone());
        s.tracker.start_op();
        s.per_op.clear();
    }
    pub fn new_feig(&self, cfg: Config) -> Result<Feig, String> {
        self.start_op(&Op::Configure);
        new_feig(&self.sim, cfg)
    }
    pub fn run(&self, feig: &mut Feig, op: &Op) -> OpResult {
        self.start_op(op);
        run_op(&self.sim, feig, op)
    }
}
