//! C07 - transaction tokens map one-to-one onto open pre-authorisations.
use crate::client::*;
use crate::hist::*;
use crate::simterm::Outcome;
use crate::util::*;
use serde_json::json;
use vcore::dbx;
use vcore::report::*;

pub fn ops(tokens: &[&str]) -> Vec<Op> {
    let mut v = vec![];
    for t in tokens {
        v.push(Op::Begin(t.to_string()));
    }
    for t in tokens {
        v.push(Op::Commit(t.to_string(), 0));
        v.push(Op::Commit(t.to_string(), 2500));
    }
    for t in tokens {
        v.push(Op::Cancel(t.to_string()));
    }
    v.push(Op::ReadCard);
    v
}

pub fn run(run: &RunInfo) -> Summary {
    let depth = if run.thorough() { 5 } else { 4 };
    let all_ops = ops(&["A", "B", "C"]);
    let nops = all_ops.len();
    // (max, first operation, noisy): the noisy pass explores one deviation of the reply shape per
    // history (no / two intermediate statuses, a print line, an extra status information) at depth - 1
    let mut work: Vec<(usize, usize, bool, bool)> = vec![];
    for max in 0..=3usize {
        for first in 0..nops {
            work.push((max, first, false, false));
            if max >= 1 {
                work.push((max, first, true, false));
            }
        }
    }
    // tokens that are related to each other (prefix "AC" as used for the reference, case, trailing
    // blank): distinct tokens must stay distinct keys at every entry point
    let rel_ops = ops(&["ACX", "X", "x", "X "]);
    for first in 0..rel_ops.len() {
        work.push((2, first, false, true));
    }
    let mut acc = par_for(work.len(), |ix, acc| {
        let (max, first, noisy, related) = work[ix];
        if skip_for_replay(run, &format!("c07/max={max}/first={first}/noisy={noisy}/related={related}/")) {
            return;
        }
        let p = HistParams {
            max,
            depth: if noisy || related { depth - 1 } else { depth },
            ops: if related { rel_ops.clone() } else { all_ops.clone() },
            dangling: None,
            reservation_menu: vec![Outcome::Ok, Outcome::Abort(0x6c), Outcome::Abort(0xfc), Outcome::NoStatus, Outcome::OkExtraStatus, Outcome::StatusThenAbort(0x6c), Outcome::StatusWithoutReceipt],
            commit_menu: vec![Outcome::Ok, Outcome::Abort(0x6c)],
            cancel_menu: vec![Outcome::Ok, Outcome::Abort(0xb4)],
            eod_menu: vec![Eod::Completion],
            noise: noisy,
            delay_ms: 0,
            focus19: false,
            rearm_dangling: false,
            faults: false,
        };
        let st = dbx::explore(if noisy { 1 } else { 0 }, 200_000_000, |ctx| {
            let o = history(ctx, &p, Some(first), acc);
            let (problems, trace) = (o.c07, o.trace);
            acc.count("executions", 1);
            if !problems.is_empty() {
                let choices = ctx.choices();
                acc.violation(viol(
                    format!("c07/max={max}/first={first}/noisy={noisy}/related={related}/choices={choices:?}"),
                    format!("transactions_max_num = {max}\nhistory:\n  {}\nviolations:\n  {}", trace.join("\n  "), problems.join("\n  ")),
                    trace.len() as u64,
                ));
            }
        });
        acc.max("max_depth", st.max_depth);
        if st.capped {
            acc.count("capped", 1);
        }
    });
    // histories with transport faults (the fault menu of C09 as explorer deviations): what the token
    // map must guarantee across a failed exchange, the re-sent command and the reconnect
    {
        let f_ops = ops(&["A", "B"]);
        let f_depth = if run.thorough() { 4 } else { 3 };
        let mut fwork: Vec<(usize, usize)> = vec![];
        for max in 1..=2usize {
            for first in 0..f_ops.len() {
                fwork.push((max, first));
            }
        }
        let part = par_for(fwork.len(), |ix, acc| {
            let (max, first) = fwork[ix];
            if skip_for_replay(run, &format!("c07/faults/max={max}/first={first}/")) {
                return;
            }
            let p = HistParams {
                max,
                depth: f_depth,
                ops: f_ops.clone(),
                dangling: None,
                reservation_menu: vec![Outcome::Ok, Outcome::Abort(0x6c)],
                commit_menu: vec![Outcome::Ok],
                cancel_menu: vec![Outcome::Ok],
                eod_menu: vec![Eod::Completion],
                noise: false,
                delay_ms: 0,
                focus19: false,
                rearm_dangling: false,
                faults: true,
            };
            let st = dbx::explore(1, 200_000_000, |ctx| {
                let o = history(ctx, &p, Some(first), acc);
                acc.count("executions", 1);
                acc.count("fault_executions", 1);
                if !o.c07.is_empty() {
                    let choices = ctx.choices();
                    acc.violation(viol(
                        format!("c07/faults/max={max}/first={first}/choices={choices:?}"),
                        format!("transactions_max_num = {max}, one transport fault\nhistory:\n  {}\nviolations:\n  {}", o.trace.join("\n  "), o.c07.join("\n  ")),
                        o.trace.len() as u64,
                    ));
                }
            });
            if st.capped {
                acc.count("capped", 1);
            }
        });
        acc.merge(part);
    }
    // a slow terminal (every reply packet 25 s / 59 s after the previous one, inside the per-packet
    // time-out, so an exchange takes longer than one time-out in total) and tokens longer than any
    // field the client could cut them to, which share their first 8 / 16 / 32 / 64 characters
    {
        let mut passes: Vec<(String, usize, Vec<Op>, u64, usize)> = vec![];
        for slow in [25_000u64, 59_000] {
            for max in 1..=2usize {
                // (no read_card here: its per-packet time-out is read_card_timeout + 2 = 17 s)
                passes.push((format!("slow={slow}/max={max}"), max, ops(&["A", "B"]).into_iter().filter(|o| !matches!(o, Op::ReadCard)).collect(), slow, if run.thorough() { 3 } else { 2 }));
            }
        }
        for k in [8usize, 16, 32, 64] {
            let pre: String = (0..k).map(|i| (b'a' + (i % 26) as u8) as char).collect();
            let (ta, tb) = (format!("{pre}1"), format!("{pre}2"));
            passes.push((format!("shared-prefix={k}"), 2, ops(&[ta.as_str(), tb.as_str()]), 0, if run.thorough() { 4 } else { 3 }));
        }
        let part = par_for(passes.len(), |ix, acc| {
            let (name, max, p_ops, slow, d) = &passes[ix];
            if skip_for_replay(run, &format!("c07/{name}/")) {
                return;
            }
            let p = HistParams {
                max: *max,
                depth: *d,
                ops: p_ops.clone(),
                dangling: None,
                reservation_menu: vec![Outcome::Ok, Outcome::Abort(0x6c)],
                commit_menu: vec![Outcome::Ok],
                cancel_menu: vec![Outcome::Ok],
                eod_menu: vec![Eod::Completion],
                noise: false,
                delay_ms: *slow,
                focus19: false,
                rearm_dangling: false,
                faults: false,
            };
            dbx::explore(0, 200_000_000, |ctx| {
                let o = history(ctx, &p, None, acc);
                acc.count("executions", 1);
                acc.count(if *slow > 0 { "w_slow_histories" } else { "w_long_token_histories" }, 1);
                if !o.c07.is_empty() {
                    let choices = ctx.choices();
                    acc.violation(viol(
                        format!("c07/{name}/choices={choices:?}"),
                        format!("transactions_max_num = {max}, {name}\nhistory:\n  {}\nviolations:\n  {}", o.trace.join("\n  "), o.c07.join("\n  ")),
                        o.trace.len() as u64,
                    ));
                }
            });
        });
        acc.merge(part);
    }
    // state-deduplicated search beyond the depth bound (start from non-initial states too)
    if !skip_for_replay(run, "c07/bfs") || run.replay_only.as_ref().map(|r| r["key"].as_str().unwrap_or("").contains("/bfs/")).unwrap_or(false) {
        for max in 1..=3usize {
            let p = HistParams {
                max,
                depth: 0,
                ops: all_ops.clone(),
                dangling: None,
                reservation_menu: vec![Outcome::Ok, Outcome::Abort(0x6c), Outcome::Abort(0xfc), Outcome::NoStatus, Outcome::OkExtraStatus, Outcome::StatusThenAbort(0x6c), Outcome::StatusWithoutReceipt],
                commit_menu: vec![Outcome::Ok, Outcome::Abort(0x6c)],
                cancel_menu: vec![Outcome::Ok, Outcome::Abort(0xb4)],
                eod_menu: vec![Eod::Completion],
                noise: false,
                delay_ms: 0,
                focus19: false,
                rearm_dangling: false,
            faults: false,
            };
            let (levels, states, transitions, fix) = bfs(&p, 12, &format!("c07/max={max}"), |o| &o.c07, &mut acc);
            acc.count("bfs_states", states as u64);
            acc.count("bfs_state_transitions", transitions);
            acc.max("bfs_levels", levels as u64);
            if fix {
                acc.count("w_bfs_fixpoint", 1);
            }
        }
    }
    for (c, w) in [
        ("w_bfs_fixpoint", "the state-deduplicated search reached its fixed point"),
        ("w_three_open", "three tokens open at once"),
        ("w_refused_at_max", "a begin was refused at the maximum"),
        ("w_token_reused", "a token was reused after it was closed"),
        ("w_older_of_two", "the older of two open tokens was committed or cancelled"),
        ("w_slow_histories", "histories against a terminal whose exchanges take longer than one time-out in total"),
        ("w_long_token_histories", "two open tokens that share a long prefix"),
        ("w_request_resent", "a commit or cancel was re-sent after a transport fault and named the same receipt number"),
        ("w_begin_survived_fault", "a begin hit by a transport fault still recorded the receipt issued for it"),
    ] {
        if acc.get(c) > 0 {
            acc.witness(w);
        }
    }
    acc.sample(json!({"max": 2, "history": ["begin(A) -> receipt 1", "begin(B) -> receipt 2", "commit(A,0) -> PartialReversal{receipt 1}", "begin(A) -> receipt 1"]}));
    let execs = acc.get("executions");
    acc.count("evaluations", execs);
    let caps = if acc.get("capped") > 0 { vec!["execution cap hit".to_string()] } else { vec![] };
    Summary {
        states: acc.set_len("states"),
        transitions: acc.get("transitions"),
        traces_validated: execs,
        distinct_nontrivial: acc.set_len("states"),
        rule: format!("real Feig client against the simulated terminal (paused clock): transactions_max_num 0..=3 x all call histories of depth {depth} over {{begin, commit(0), commit(pre), cancel}} x tokens {{A,B,C}} + read_card, the terminal's outcome of every request that really arrives chosen among {{success with the smallest free receipt number, the same followed by a further status information without receipt number, abort 6C, abort FC, completion without receipt}} (reservation) / {{completion, abort}} (commit, cancel). A further pass at depth - 1 uses four related tokens (ACX, X, x, 'X ') with max 2. A second pass at depth - 1 additionally explores every single deviation of the terminal's reply shape (no / two intermediate statuses, a print line or an extra status information ahead of the final packet of any exchange). Further passes: histories of depth 3 (thorough 4) over tokens {{A,B}} with one transport fault (the fault menu of C09) at any packet the terminal sends after Feig::new (requests re-sent after the fault must name the same receipt number, a begin records nothing but a receipt issued for it in this call, other tokens are untouched, refused calls cause no traffic); histories of depth 2 (3) against a terminal that sends every reply packet 25 s resp. 59 s after the previous one; histories of depth 3 (4) with two tokens that share their first 8 / 16 / 32 / 64 characters. Finally a state-deduplicated breadth-first search (state = client map, connection flag, terminal ledger) executes every operation with every outcome from every reachable state until no new state appears (at most 12 levels). Every step is compared with the reference model (result class, refused calls cause no traffic, exact request incl. receipt number, clean-up when the map empties, client snapshot == model map). states = distinct (max, client map, terminal ledger)"),
        exhaustive: true,
        required_witnesses: vec![
            "the state-deduplicated search reached its fixed point".into(),
            "three tokens open at once".into(),
            "a begin was refused at the maximum".into(),
            "a token was reused after it was closed".into(),
            "the older of two open tokens was committed or cancelled".into(),
            "a commit or cancel was re-sent after a transport fault and named the same receipt number".into(),
            "histories against a terminal whose exchanges take longer than one time-out in total".into(),
            "two open tokens that share a long prefix".into(),
            "a begin hit by a transport fault still recorded the receipt issued for it".into(),
        ],
        assumptions: vec!["transport faults: at most one per history, in the dedicated pass of depth 3 (thorough 4); what a call hit by a fault must still guarantee is listed in DESIGN.md 13.5 (eighth wave)".into(), "which ActiveTransaction text is used when both refusal reasons hold is not specified".into()],
        bounds: json!({"depth": depth, "tokens": 3, "max": "0..=3"}),
        caps_hit: caps,
        evaluations_counter: "evaluations".into(),
        acc,
    }
}

