//! C07 - transaction tokens map one-to-one onto open pre-authorisations.
use crate::client::*;
use crate::sim::Sh;
use crate::simterm::*;
use crate::util::*;
use serde_json::json;
use std::cell::RefCell;
use std::rc::Rc;
use vcore::dbx::{self, Ctx};
use vcore::report::*;

pub struct PolSt {
    pub op: Op,
    pub tracker: Tracker,
    /// (exchange, outcome, receipt issued by a successful reservation)
    pub chosen: Vec<(Xch, Outcome, Option<u32>)>,
    pub lazy: bool,
}

pub struct LazyPolicy {
    pub st: Rc<RefCell<PolSt>>,
}

impl Policy for LazyPolicy {
    fn on_command(&mut self, t: &mut TermState, ctx: &mut Ctx, req: &ReqRec) -> Vec<Step> {
        let mut st = self.st.borrow_mut();
        let op = st.op.clone();
        let x = st.tracker.classify(t.table, &op, req);
        let outcome = if x == Xch::Main && st.lazy {
            match req.key.as_str() {
                "Reservation" => [Outcome::Ok, Outcome::Abort(0x6c), Outcome::Abort(0xfc), Outcome::NoStatus][ctx.any(4, "reservation-outcome")].clone(),
                "PartialReversal" => [Outcome::Ok, Outcome::Abort(0x6c)][ctx.any(2, "commit-outcome")].clone(),
                "PreAuthReversal" => [Outcome::Ok, Outcome::Abort(0xb4)][ctx.any(2, "cancel-outcome")].clone(),
                _ => Outcome::Ok,
            }
        } else {
            Outcome::Ok
        };
        let issued = if req.key == "Reservation" && outcome == Outcome::Ok { Some(t.free_receipt()) } else { None };
        st.chosen.push((x, outcome.clone(), issued));
        default_script(t, req, &outcome, 1)
    }
}

pub fn ops() -> Vec<Op> {
    let mut v = vec![];
    for t in ["A", "B", "C"] {
        v.push(Op::Begin(t.into()));
    }
    for t in ["A", "B", "C"] {
        v.push(Op::Commit(t.into(), 0));
        v.push(Op::Commit(t.into(), 2500));
    }
    for t in ["A", "B", "C"] {
        v.push(Op::Cancel(t.into()));
    }
    v.push(Op::ReadCard);
    v
}

struct Trace {
    lines: Vec<String>,
}

/// one history; returns the problems found (empty = the history conforms)
fn history(ctx: &mut Ctx, max: usize, first: usize, depth: usize, acc: &mut Acc) -> (Vec<String>, Vec<String>) {
    let table: &'static vcore::layout::Table = vcore::layout::shipped_static();
    let all_ops = ops();
    let sh: Sh = Rc::new(RefCell::new(std::mem::replace(ctx, Ctx::new(vec![], vec![], 0))));
    let st = Rc::new(RefCell::new(PolSt { op: Op::Configure, tracker: Tracker::new(), chosen: vec![], lazy: false }));
    let mut tr = Trace { lines: vec![] };
    let mut problems: Vec<String> = vec![];
    {
        let sim = Sim::new(sh.clone(), Box::new(LazyPolicy { st: st.clone() }));
        let mut cfg = base_config();
        cfg.transactions_max_num = max;
        match new_feig(&sim, cfg.clone()) {
            Err(e) => problems.push(e),
            Ok(mut feig) => {
                st.borrow_mut().lazy = true;
                let mut model = Model { open: Default::default(), max };
                let mut closed_once: Vec<String> = vec![];
                for step in 0..depth {
                    let oi = if step == 0 { first } else { sh.borrow_mut().any(all_ops.len(), "op") };
                    let op = all_ops[oi].clone();
                    {
                        let mut s = st.borrow_mut();
                        s.op = op.clone();
                        s.tracker.start_op();
                        s.chosen.clear();
                    }
                    let (r0, e0) = sim.w.borrow().t.traffic_marker();
                    let res = run_op(&sim, &mut feig, &op);
                    acc.count("transitions", 1);
                    let w = sim.w.borrow();
                    let new: Vec<ReqRec> = w.t.reqs[r0..].to_vec();
                    let (_, e1) = w.t.traffic_marker();
                    let chosen = st.borrow().chosen.clone();
                    tr.lines.push(format!(
                        "{}: {} -> {} | requests: [{}] | terminal outcomes: {:?}",
                        step,
                        op.label(),
                        res.short(),
                        new.iter().map(|r| format!("{} {}", r.key, show_req(&table, &r.key, &r.val))).collect::<Vec<_>>().join("; "),
                        chosen.iter().map(|(x, o, i)| format!("{x:?}:{o:?}{}", i.map(|r| format!("(receipt {r})")).unwrap_or_default())).collect::<Vec<_>>()
                    ));
                    let mut bad = |s: String| problems.push(format!("step {step} {}: {s}", op.label()));
                    let no_traffic = new.is_empty() && e1 == e0;
                    let cleanup_expected = |new: &[ReqRec], from: usize, bad: &mut dyn FnMut(String)| {
                        // P1 (nothing pending in this check) then P3
                        let rest = &new[from..];
                        if rest.len() != 2 || rest[0].key != "PartialReversal" || rest[0].val.as_ref() != Some(&expect_pending_query(&table)) || rest[1].key != "EndOfDay" || rest[1].val.as_ref() != Some(&expect_end_of_day(&cfg)) {
                            bad(format!("no transaction is left open: expected the pending query and end-of-day after the operation, got [{}]", rest.iter().map(|r| r.key.clone()).collect::<Vec<_>>().join(", ")));
                        }
                    };
                    match &op {
                        Op::Begin(t) => {
                            if model.open.len() >= model.max || model.open.contains_key(t) {
                                acc.count("refusals", 1);
                                if model.open.len() >= model.max && model.max > 0 {
                                    acc.count("w_refused_at_max", 1);
                                }
                                if !matches!(res.err(), Some((ErrClass::ActiveTransaction, _))) {
                                    bad(format!("must be refused with ActiveTransaction (open: {:?}, max {}), got {}", model.open, model.max, res.short()));
                                }
                                if !no_traffic {
                                    bad("a refused call must not cause any traffic".into());
                                }
                            } else {
                                if new.len() != 1 || new[0].key != "Reservation" || new[0].val.as_ref() != Some(&expect_reservation(&table, &cfg, t)) {
                                    bad(format!("expected exactly one Reservation {}", show_req(&table, "Reservation", &Some(expect_reservation(&table, &cfg, t)))));
                                }
                                match chosen.first() {
                                    Some((Xch::Main, Outcome::Ok, Some(r))) => {
                                        if !res.is_ok() {
                                            bad(format!("the terminal issued receipt {r}: begin must succeed, got {}", res.short()));
                                        }
                                        model.open.insert(t.clone(), *r as u64);
                                        if closed_once.contains(t) {
                                            acc.count("w_token_reused", 1);
                                        }
                                        if model.open.len() == 3 {
                                            acc.count("w_three_open", 1);
                                        }
                                    }
                                    Some((Xch::Main, Outcome::Abort(0xfc), _)) => {
                                        if !matches!(res.err(), Some((ErrClass::NeedsPinEntry, _))) {
                                            bad(format!("abort 0xFC must give NeedsPinEntry, got {}", res.short()));
                                        }
                                    }
                                    Some((Xch::Main, Outcome::Abort(c), _)) => {
                                        if !matches!(res.err(), Some((ErrClass::Aborted(x), _)) if x == c) {
                                            bad(format!("abort {c:#x} must fail identifying the code, got {}", res.short()));
                                        }
                                    }
                                    Some((Xch::Main, Outcome::NoStatus, _)) => {
                                        if res.is_ok() || res.err().is_none() {
                                            bad(format!("completion without a receipt number must fail, got {}", res.short()));
                                        }
                                    }
                                    other => bad(format!("the reservation never reached the terminal ({other:?})")),
                                }
                            }
                        }
                        Op::Commit(t, _) | Op::Cancel(t) => {
                            if !model.open.contains_key(t) {
                                acc.count("refusals", 1);
                                if !matches!(res.err(), Some((ErrClass::UnknownToken(x), _)) if x == t) {
                                    bad(format!("must be refused with UnknownToken({t}), got {}", res.short()));
                                }
                                if !no_traffic {
                                    bad("a refused call must not cause any traffic".into());
                                }
                            } else {
                                let oldest = model.open.iter().min_by_key(|(_, r)| **r).map(|(k, _)| k.clone());
                                if model.open.len() >= 2 && oldest.as_ref() == Some(t) {
                                    acc.count("w_older_of_two", 1);
                                }
                                let r = model.open.remove(t).unwrap();
                                closed_once.push(t.clone());
                                let (key, want) = match &op {
                                    Op::Commit(_, a) => ("PartialReversal", expect_partial_reversal(&table, &cfg, t, r, *a)),
                                    _ => ("PreAuthReversal", expect_preauth_reversal(&table, &cfg, r)),
                                };
                                if new.is_empty() || new[0].key != key || new[0].val.as_ref() != Some(&want) {
                                    bad(format!("must act on exactly this token's receipt: expected first request {key} {}", show_req(&table, key, &Some(want.clone()))));
                                }
                                match chosen.first() {
                                    Some((Xch::Main, Outcome::Ok, _)) => {
                                        if model.open.is_empty() {
                                            cleanup_expected(&new, 1, &mut bad);
                                        } else if new.len() != 1 {
                                            bad(format!("other transactions are open: no further requests expected, got {}", new.len() - 1));
                                        }
                                        if !res.is_ok() {
                                            bad(format!("the terminal completed the exchange: expected success, got {}", res.short()));
                                        }
                                    }
                                    Some((Xch::Main, Outcome::Abort(c), _)) => {
                                        if !matches!(res.err(), Some((ErrClass::Aborted(x), _)) if x == c) {
                                            bad(format!("abort {c:#x} must fail identifying the code, got {}", res.short()));
                                        }
                                        // whether a clean-up follows an aborted commit is not specified
                                        for q in &new[1..] {
                                            if !["PartialReversal", "EndOfDay", "PreAuthReversal"].contains(&q.key.as_str()) {
                                                bad(format!("unexpected request {} after the abort", q.key));
                                            }
                                        }
                                    }
                                    other => bad(format!("the request never reached the terminal ({other:?})")),
                                }
                            }
                        }
                        Op::ReadCard => {
                            if new.len() != 1 || new[0].key != "ReadCard" {
                                bad(format!("expected exactly one ReadCard request, got [{}]", new.iter().map(|r| r.key.clone()).collect::<Vec<_>>().join(", ")));
                            }
                        }
                        Op::Configure => {}
                    }
                    drop(w);
                    // the client's map equals the model's
                    let snap: Vec<(String, u64)> = feig.verif_snapshot().0.into_iter().map(|(k, v)| (k, v as u64)).collect();
                    let want: Vec<(String, u64)> = model.open.iter().map(|(k, v)| (k.clone(), *v)).collect();
                    if snap != want {
                        problems.push(format!("step {step} {}: the client's open transactions {snap:?} differ from the model's {want:?}", op.label()));
                    }
                    if sim.w.borrow().t.conns.len() != 1 {
                        problems.push(format!("step {step} {}: the client reconnected although no exchange failed", op.label()));
                    }
                    acc.set("states", h64(&(max, &snap, &sim.w.borrow().t.ledger)));
                    if !problems.is_empty() {
                        break;
                    }
                }
                drop(feig);
            }
        }
        drop(sim);
    }
    *ctx = Rc::try_unwrap(sh).ok().expect("context still shared").into_inner();
    (problems, tr.lines)
}

pub fn run(run: &RunInfo) -> Summary {
    let depth = if run.thorough() { 5 } else { 4 };
    let nops = ops().len();
    let mut work: Vec<(usize, usize)> = vec![];
    for max in 0..=3usize {
        for first in 0..nops {
            work.push((max, first));
        }
    }
    let mut acc = par_for(work.len(), |ix, acc| {
        let (max, first) = work[ix];
        if skip_for_replay(run, &format!("c07/max={max}/first={first}/")) {
            return;
        }
        let st = dbx::explore(0, 200_000_000, |ctx| {
            let (problems, trace) = history(ctx, max, first, depth, acc);
            acc.count("executions", 1);
            if !problems.is_empty() {
                let choices = ctx.choices();
                acc.violation(viol(
                    format!("c07/max={max}/first={first}/choices={choices:?}"),
                    format!("transactions_max_num = {max}\nhistory:\n  {}\nviolations:\n  {}", trace.join("\n  "), problems.join("\n  ")),
                    trace.len() as u64,
                ));
            }
        });
        acc.max("max_depth", st.max_depth);
        if st.capped {
            acc.count("capped", 1);
        }
    });
    for (c, w) in [
        ("w_three_open", "three tokens open at once"),
        ("w_refused_at_max", "a begin was refused at the maximum"),
        ("w_token_reused", "a token was reused after it was closed"),
        ("w_older_of_two", "the older of two open tokens was committed or cancelled"),
    ] {
        if acc.get(c) > 0 {
            acc.witness(w);
        }
    }
    acc.sample(json!({"max": 2, "history": ["begin(A) -> receipt 1", "begin(B) -> receipt 2", "commit(A,0) -> PartialReversal{receipt 1}", "begin(A) -> receipt 1"]}));
    let execs = acc.get("executions");
    acc.count("evaluations", execs);
    let caps = if acc.get("capped") > 0 { vec!["execution cap hit".to_string()] } else { vec![] };
    Summary {
        states: acc.set_len("states"),
        transitions: acc.get("transitions"),
        traces_validated: execs,
        distinct_nontrivial: acc.set_len("states"),
        rule: format!("real Feig client against the simulated terminal (paused clock): transactions_max_num 0..=3 x all call histories of depth {depth} over {{begin, commit(0), commit(pre), cancel}} x tokens {{A,B,C}} + read_card, the terminal's outcome of every request that really arrives chosen among {{success with the smallest free receipt number, abort 6C, abort FC, completion without receipt}} (reservation) / {{completion, abort}} (commit, cancel). Every step is compared with the reference model (result class, refused calls cause no traffic, exact request incl. receipt number, clean-up when the map empties, client snapshot == model map). states = distinct (max, client map, terminal ledger)"),
        exhaustive: true,
        required_witnesses: vec![
            "three tokens open at once".into(),
            "a begin was refused at the maximum".into(),
            "a token was reused after it was closed".into(),
            "the older of two open tokens was committed or cancelled".into(),
        ],
        assumptions: vec!["no transport faults in this check (C09/C10)".into(), "which ActiveTransaction text is used when both refusal reasons hold is not specified".into()],
        bounds: json!({"depth": depth, "tokens": 3, "max": "0..=3"}),
        caps_hit: caps,
        evaluations_counter: "evaluations".into(),
        acc,
    }
}

pub fn bench() {
    use std::time::Instant;
    let t0 = Instant::now();
    for _ in 0..200 {
        let _ = vcore::layout::shipped();
    }
    println!("shipped(): {:?} each", t0.elapsed() / 200);
    let t0 = Instant::now();
    for _ in 0..200 {
        let rt = tokio::runtime::Builder::new_current_thread().enable_time().start_paused(true).build().unwrap();
        drop(rt);
    }
    println!("runtime build+drop: {:?} each", t0.elapsed() / 200);
    let t0 = Instant::now();
    let mut acc = Acc::new();
    for _ in 0..200 {
        let mut ctx = Ctx::new(vec![], vec![], 0);
        let _ = history(&mut ctx, 1, 0, 0, &mut acc);
    }
    println!("Sim::new + Feig::new (depth 0): {:?} each", t0.elapsed() / 200);
    let t0 = Instant::now();
    for _ in 0..200 {
        let mut ctx = Ctx::new(vec![], vec![], 0);
        let _ = history(&mut ctx, 1, 0, 4, &mut acc);
    }
    println!("history depth 4: {:?} each", t0.elapsed() / 200);
}
