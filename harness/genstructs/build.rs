//! C12: enumerates struct definitions over the derive attribute grammar and emits
//!  * structs.rs  - the definitions (compiled with the real `#[derive(Zvt)]`), native constructors
//!                  from dynamic values and a registry,
//!  * table.dsl   - the same layouts in the layout-table DSL the reference codec interprets.
use std::fmt::Write as _;

#[derive(Clone, Copy, PartialEq, Debug)]
enum Pos {
    Positional,
    Bmp(u16),
    Tlv(u16),
}
#[derive(Clone, Copy, PartialEq, Debug)]
enum LenK {
    Empty,
    Fixed,
    Llv,
    Lllv,
    Tlv,
}
#[derive(Clone, PartialEq, Debug)]
enum Ty {
    U8,
    U16,
    U32,
    U64,
    Usize,
    Str,
    Nested(&'static str),
}
#[derive(Clone, Copy, PartialEq, Debug)]
enum EncK {
    Default,
    BigEndian,
    Bcd,
    Hex,
    Utf8,
}
#[derive(Clone, Copy, PartialEq, Debug)]
enum Wrap {
    Bare,
    Opt,
    Vec,
}
#[derive(Clone, Debug)]
struct FK {
    pos: Pos,
    len: LenK,
    ty: Ty,
    enc: EncK,
    wrap: Wrap,
}

impl FK {
    fn fixed_n(&self) -> usize {
        match (&self.ty, self.enc) {
            (Ty::U8, EncK::Bcd) => 2,
            (Ty::U16, EncK::Bcd) => 3,
            (Ty::U32, EncK::Bcd) => 5,
            (Ty::U64 | Ty::Usize, EncK::Bcd) => 10,
            (Ty::U8, _) => 1,
            (Ty::U16, _) => 2,
            (Ty::U32, _) => 4,
            (Ty::U64 | Ty::Usize, _) => 8,
            (Ty::Str, _) => 4,
            (Ty::Nested(_), _) => 0,
        }
    }
    fn rust_inner(&self) -> String {
        match &self.ty {
            Ty::U8 => "u8".into(),
            Ty::U16 => "u16".into(),
            Ty::U32 => "u32".into(),
            Ty::U64 => "u64".into(),
            Ty::Usize => "usize".into(),
            Ty::Str => "String".into(),
            Ty::Nested(n) => n.to_string(),
        }
    }
    fn rust_ty(&self) -> String {
        match self.wrap {
            Wrap::Bare => self.rust_inner(),
            Wrap::Opt => format!("Option<{}>", self.rust_inner()),
            Wrap::Vec => format!("Vec<{}>", self.rust_inner()),
        }
    }
    fn attr(&self) -> String {
        let enc = match self.enc {
            EncK::Default => None,
            EncK::BigEndian => Some("zvt_builder::encoding::BigEndian"),
            EncK::Bcd => Some("zvt_builder::encoding::Bcd"),
            EncK::Hex => Some("zvt_builder::encoding::Hex"),
            EncK::Utf8 => Some("zvt_builder::encoding::Utf8"),
        };
        let len = match self.len {
            LenK::Empty => None,
            LenK::Fixed => Some(format!("zvt_builder::length::Fixed<{}>", self.fixed_n())),
            LenK::Llv => Some("zvt_builder::length::Llv".to_string()),
            LenK::Lllv => Some("zvt_builder::length::Lllv".to_string()),
            LenK::Tlv => Some("zvt_builder::length::Tlv".to_string()),
        };
        match self.pos {
            Pos::Tlv(t) => match enc {
                Some(e) => format!("#[zvt_tlv(tag = {t:#x}, encoding = {e})]"),
                None => format!("#[zvt_tlv(tag = {t:#x})]"),
            },
            Pos::Bmp(_) | Pos::Positional => {
                let mut parts = vec![];
                if let Pos::Bmp(n) = self.pos {
                    parts.push(format!("number = {n:#x}"));
                }
                if let Some(l) = len {
                    parts.push(format!("length = {l}"));
                }
                if let Some(e) = enc {
                    parts.push(format!("encoding = {e}"));
                }
                if parts.is_empty() {
                    String::new()
                } else {
                    format!("#[zvt_bmp({})]", parts.join(", "))
                }
            }
        }
    }
    fn dsl(&self, name: &str) -> String {
        let tag = match self.pos {
            Pos::Positional => "pos".to_string(),
            Pos::Bmp(n) => format!("B{n:X}"),
            Pos::Tlv(t) => format!("T{t:X}"),
        };
        let len = match (self.pos, self.len) {
            (Pos::Tlv(_), _) => "BER".to_string(),
            (_, LenK::Empty) => "-".to_string(),
            (_, LenK::Fixed) => format!("F{}", self.fixed_n()),
            (_, LenK::Llv) => "LL".to_string(),
            (_, LenK::Lllv) => "LLL".to_string(),
            (_, LenK::Tlv) => "BER".to_string(),
        };
        let enc = match (&self.ty, self.enc) {
            (Ty::Nested(n), _) => n.to_string(),
            (Ty::Str, EncK::Hex) => "hex".into(),
            (Ty::Str, EncK::Utf8) => "utf8".into(),
            (Ty::Str, _) => "txt".into(),
            (Ty::U8, EncK::Bcd) => "bcd8".into(),
            (Ty::U16, EncK::Bcd) => "bcd16".into(),
            (Ty::U32, EncK::Bcd) => "bcd32".into(),
            (_, EncK::Bcd) => "bcd".into(),
            (Ty::U8, EncK::BigEndian) => "be8".into(),
            (Ty::U16, EncK::BigEndian) => "be16".into(),
            (Ty::U32, EncK::BigEndian) => "be32".into(),
            (_, EncK::BigEndian) => "be64".into(),
            (Ty::U8, _) => "u8".into(),
            (Ty::U16, _) => "le16".into(),
            (Ty::U32, _) => "le32".into(),
            (_, _) => "le64".into(),
        };
        let wrap = match (self.wrap, self.pos) {
            (Wrap::Bare, Pos::Positional) => ".",
            (Wrap::Bare, _) => "!",
            (Wrap::Opt, _) => "?",
            (Wrap::Vec, _) => "*",
        };
        format!("  {name} {tag} {len} {enc} {wrap}")
    }
    fn conv(&self) -> String {
        match &self.ty {
            Ty::U8 => "x.int() as u8".into(),
            Ty::U16 => "x.int() as u16".into(),
            Ty::U32 => "x.int() as u32".into(),
            Ty::U64 => "x.int()".into(),
            Ty::Usize => "x.int() as usize".into(),
            Ty::Str => "text(x)".into(),
            Ty::Nested(n) => format!("build_{n}(x)"),
        }
    }
    fn tagged(&self) -> bool {
        !matches!(self.pos, Pos::Positional)
    }
    fn with_tag(&self, i: usize) -> FK {
        let mut f = self.clone();
        f.pos = match f.pos {
            Pos::Positional => Pos::Positional,
            Pos::Bmp(n) => Pos::Bmp(if n >= 0x100 { n + i as u16 } else { n + (i as u16) * 2 }),
            Pos::Tlv(t) => Pos::Tlv(if t >= 0x100 { t + i as u16 } else { t + (i as u16) * 2 }),
        };
        f
    }
}

struct Gen {
    structs: String,
    dsl: String,
    registry: String,
    n: usize,
}

impl Gen {
    fn emit(&mut self, name: &str, family: &str, ctrl: Option<(u8, u8)>, fields: &[FK]) {
        let mut s = String::new();
        let _ = writeln!(s, "#[derive(Debug, Default, Clone, PartialEq, zvt_derive::Zvt)]");
        if let Some((c, i)) = ctrl {
            let _ = writeln!(s, "#[zvt_control_field(class = {c:#x}, instr = {i:#x})]");
        }
        let _ = writeln!(s, "pub struct {name} {{");
        for (i, f) in fields.iter().enumerate() {
            let a = f.attr();
            if !a.is_empty() {
                let _ = writeln!(s, "    {a}");
            }
            let _ = writeln!(s, "    pub f{i}: {},", f.rust_ty());
        }
        let _ = writeln!(s, "}}");
        let _ = writeln!(s, "#[allow(unused_variables)]\npub fn build_{name}(v: &Val) -> {name} {{\n    let f = v.fields();\n    {name} {{");
        for (i, f) in fields.iter().enumerate() {
            let conv = f.conv();
            let e = match f.wrap {
                Wrap::Bare => format!("{{ let x = &f[{i}]; {conv} }}"),
                Wrap::Opt => format!("opt(&f[{i}], |x| {conv})"),
                Wrap::Vec => format!("list(&f[{i}], |x| {conv})"),
            };
            let _ = writeln!(s, "        f{i}: {e},");
        }
        let _ = writeln!(s, "    }}\n}}\n");
        self.structs.push_str(&s);
        let _ = writeln!(self.dsl, "type {name}{}", ctrl.map(|(c, i)| format!(" ctrl={c:02X}{i:02X}")).unwrap_or_default());
        for (i, f) in fields.iter().enumerate() {
            let _ = writeln!(self.dsl, "{}", f.dsl(&format!("f{i}")));
        }
        let _ = writeln!(self.dsl);
        if family != "inner" {
            let _ = writeln!(self.registry, "        Entry {{ name: \"{name}\", family: \"{family}\", encode: |v| enc(&build_{name}(v)), roundtrip: |v, b| rt(&build_{name}(v), b), decode: |b| dec::<{name}>(b) }},");
        }
        self.n += 1;
    }
}

fn scalar_kinds() -> Vec<(Ty, EncK)> {
    let mut v = vec![];
    for ty in [Ty::U8, Ty::U16, Ty::U32, Ty::U64, Ty::Usize] {
        for e in [EncK::Default, EncK::BigEndian, EncK::Bcd] {
            v.push((ty.clone(), e));
        }
    }
    v.push((Ty::Str, EncK::Default));
    v.push((Ty::Str, EncK::Hex));
    v.push((Ty::Str, EncK::Utf8));
    v
}

fn main() {
    let out = std::env::var("OUT_DIR").unwrap();
    let mut g = Gen { structs: String::new(), dsl: String::new(), registry: String::new(), n: 0 };

    // ---- inner structs used for nesting
    let fk = |pos, len, ty, enc, wrap| FK { pos, len, ty, enc, wrap };
    g.emit("I0", "inner", None, &[fk(Pos::Positional, LenK::Empty, Ty::U8, EncK::Default, Wrap::Bare)]);
    g.emit("I1", "inner", None, &[fk(Pos::Positional, LenK::Empty, Ty::U8, EncK::Default, Wrap::Bare), fk(Pos::Bmp(0x10), LenK::Empty, Ty::U8, EncK::Default, Wrap::Opt)]);
    g.emit("I2", "inner", None, &[fk(Pos::Tlv(0x41), LenK::Tlv, Ty::Str, EncK::Hex, Wrap::Opt), fk(Pos::Tlv(0x43), LenK::Tlv, Ty::U16, EncK::BigEndian, Wrap::Opt)]);
    g.emit("I3", "inner", None, &[fk(Pos::Tlv(0x07), LenK::Tlv, Ty::Str, EncK::Default, Wrap::Vec)]);
    g.emit("I4", "inner", None, &[fk(Pos::Positional, LenK::Empty, Ty::U16, EncK::BigEndian, Wrap::Bare), fk(Pos::Positional, LenK::Empty, Ty::U8, EncK::Default, Wrap::Bare)]);
    g.emit("I5", "inner", None, &[fk(Pos::Tlv(0x1f10), LenK::Tlv, Ty::U8, EncK::Default, Wrap::Bare)]);
    // second level
    g.emit("J0", "inner", None, &[fk(Pos::Tlv(0x60), LenK::Tlv, Ty::Nested("I2"), EncK::Default, Wrap::Vec), fk(Pos::Tlv(0x62), LenK::Tlv, Ty::Nested("I5"), EncK::Default, Wrap::Opt)]);
    g.emit("J1", "inner", None, &[fk(Pos::Positional, LenK::Empty, Ty::Nested("I4"), EncK::Default, Wrap::Bare), fk(Pos::Bmp(0x60), LenK::Lllv, Ty::Nested("I1"), EncK::Default, Wrap::Opt)]);

    // ---- F1: all one-field structs
    let mut idx = 0;
    for pos in [Pos::Positional, Pos::Bmp(0x27), Pos::Bmp(0x1f27), Pos::Tlv(0x4c)] {
        let lens: Vec<LenK> = if matches!(pos, Pos::Tlv(_)) { vec![LenK::Tlv] } else { vec![LenK::Empty, LenK::Fixed, LenK::Llv, LenK::Lllv, LenK::Tlv] };
        for len in lens {
            for (ty, enc) in scalar_kinds() {
                for wrap in [Wrap::Bare, Wrap::Opt, Wrap::Vec] {
                    g.emit(&format!("A{idx}"), "one-field", None, &[fk(pos, len, ty.clone(), enc, wrap)]);
                    idx += 1;
                }
            }
            // nested inner structs through this position / length style
            if len != LenK::Fixed {
                for inner in ["I0", "I1", "I2", "I3", "I4", "I5"] {
                    for wrap in [Wrap::Bare, Wrap::Opt, Wrap::Vec] {
                        g.emit(&format!("A{idx}"), "one-field-nested", None, &[fk(pos, len, Ty::Nested(inner), EncK::Default, wrap)]);
                        idx += 1;
                    }
                }
            }
        }
    }

    // ---- F2: all ordered pairs over a 24-kind alphabet (untagged before tagged)
    let kinds20: Vec<FK> = vec![
        fk(Pos::Positional, LenK::Empty, Ty::U8, EncK::Default, Wrap::Bare),
        fk(Pos::Positional, LenK::Fixed, Ty::Usize, EncK::Bcd, Wrap::Bare),
        fk(Pos::Positional, LenK::Fixed, Ty::Usize, EncK::Bcd, Wrap::Opt),
        fk(Pos::Positional, LenK::Llv, Ty::Str, EncK::Default, Wrap::Bare),
        fk(Pos::Positional, LenK::Lllv, Ty::Str, EncK::Hex, Wrap::Opt),
        fk(Pos::Positional, LenK::Tlv, Ty::U16, EncK::BigEndian, Wrap::Vec),
        fk(Pos::Positional, LenK::Empty, Ty::Str, EncK::Default, Wrap::Bare),
        fk(Pos::Positional, LenK::Empty, Ty::U16, EncK::Bcd, Wrap::Opt),
        fk(Pos::Positional, LenK::Empty, Ty::U8, EncK::Default, Wrap::Vec),
        fk(Pos::Positional, LenK::Empty, Ty::Nested("I1"), EncK::Default, Wrap::Bare),
        fk(Pos::Bmp(0x30), LenK::Empty, Ty::U8, EncK::Default, Wrap::Opt),
        fk(Pos::Bmp(0x30), LenK::Fixed, Ty::Usize, EncK::Bcd, Wrap::Bare),
        fk(Pos::Bmp(0x30), LenK::Llv, Ty::Str, EncK::Default, Wrap::Opt),
        fk(Pos::Bmp(0x30), LenK::Lllv, Ty::Nested("I4"), EncK::Default, Wrap::Opt),
        fk(Pos::Bmp(0x1f30), LenK::Tlv, Ty::U32, EncK::BigEndian, Wrap::Vec),
        fk(Pos::Tlv(0x50), LenK::Tlv, Ty::Str, EncK::Hex, Wrap::Opt),
        fk(Pos::Tlv(0x50), LenK::Tlv, Ty::Str, EncK::Default, Wrap::Vec),
        fk(Pos::Tlv(0x50), LenK::Tlv, Ty::Usize, EncK::Bcd, Wrap::Bare),
        fk(Pos::Tlv(0x1f50), LenK::Tlv, Ty::Nested("I2"), EncK::Default, Wrap::Opt),
        fk(Pos::Tlv(0x1f50), LenK::Tlv, Ty::Nested("I5"), EncK::Default, Wrap::Vec),
        // absent positional optionals whose inner decoder fails in other ways than "incomplete"
        fk(Pos::Positional, LenK::Tlv, Ty::Str, EncK::Default, Wrap::Opt),
        fk(Pos::Positional, LenK::Empty, Ty::Nested("I5"), EncK::Default, Wrap::Opt),
        fk(Pos::Bmp(0x8a), LenK::Empty, Ty::U8, EncK::Default, Wrap::Opt),
        fk(Pos::Tlv(0xe4), LenK::Tlv, Ty::Nested("I4"), EncK::Default, Wrap::Bare),
    ];
    let mut idx = 0;
    for a in &kinds20 {
        for b in &kinds20 {
            if a.tagged() && !b.tagged() {
                continue; // the macro assumes untagged fields before tagged fields
            }
            g.emit(&format!("B{idx}"), "two-field", None, &[a.with_tag(0), b.with_tag(1)]);
            idx += 1;
        }
    }

    // ---- F3: all ordered triples over an 8-kind alphabet
    let kinds8: Vec<FK> = vec![
        fk(Pos::Positional, LenK::Empty, Ty::U8, EncK::Default, Wrap::Bare),
        fk(Pos::Positional, LenK::Fixed, Ty::Usize, EncK::Bcd, Wrap::Opt),
        fk(Pos::Positional, LenK::Llv, Ty::Str, EncK::Default, Wrap::Bare),
        fk(Pos::Positional, LenK::Empty, Ty::U16, EncK::BigEndian, Wrap::Vec),
        fk(Pos::Bmp(0x30), LenK::Fixed, Ty::Usize, EncK::Bcd, Wrap::Opt),
        fk(Pos::Bmp(0x30), LenK::Empty, Ty::U8, EncK::Default, Wrap::Bare),
        fk(Pos::Tlv(0x50), LenK::Tlv, Ty::Str, EncK::Default, Wrap::Vec),
        fk(Pos::Tlv(0x1f50), LenK::Tlv, Ty::Nested("I2"), EncK::Default, Wrap::Opt),
    ];
    let mut idx = 0;
    for a in &kinds8 {
        for b in &kinds8 {
            for c in &kinds8 {
                if (a.tagged() && !b.tagged()) || (b.tagged() && !c.tagged()) || (a.tagged() && !c.tagged()) {
                    continue;
                }
                g.emit(&format!("C{idx}"), "three-field", None, &[a.with_tag(0), b.with_tag(1), c.with_tag(2)]);
                idx += 1;
            }
        }
    }

    // ---- F4: nesting depth 3 through every length style and wrapper
    let mut idx = 0;
    for pos in [Pos::Positional, Pos::Bmp(0x06), Pos::Tlv(0x25), Pos::Tlv(0x1f25)] {
        let lens: Vec<LenK> = if matches!(pos, Pos::Tlv(_)) { vec![LenK::Tlv] } else { vec![LenK::Empty, LenK::Llv, LenK::Lllv, LenK::Tlv] };
        for len in lens {
            for inner in ["J0", "J1"] {
                for wrap in [Wrap::Bare, Wrap::Opt, Wrap::Vec] {
                    g.emit(&format!("D{idx}"), "nested-depth-3", None, &[fk(pos, len, Ty::Nested(inner), EncK::Default, wrap)]);
                    idx += 1;
                }
            }
        }
    }

    // ---- F5: one struct with eight optional tagged fields (all 2^8 presence patterns at run time)
    let eight: Vec<FK> = vec![
        fk(Pos::Bmp(0x04), LenK::Fixed, Ty::Usize, EncK::Bcd, Wrap::Opt),
        fk(Pos::Bmp(0x19), LenK::Empty, Ty::U8, EncK::Default, Wrap::Opt),
        fk(Pos::Bmp(0x22), LenK::Llv, Ty::Usize, EncK::Bcd, Wrap::Opt),
        fk(Pos::Bmp(0x3c), LenK::Lllv, Ty::Str, EncK::Default, Wrap::Opt),
        fk(Pos::Bmp(0x1f01), LenK::Tlv, Ty::U32, EncK::BigEndian, Wrap::Opt),
        fk(Pos::Tlv(0x4c), LenK::Tlv, Ty::Str, EncK::Hex, Wrap::Opt),
        fk(Pos::Tlv(0x60), LenK::Tlv, Ty::Nested("I2"), EncK::Default, Wrap::Vec),
        fk(Pos::Tlv(0x1f0b), LenK::Tlv, Ty::Usize, EncK::Bcd, Wrap::Opt),
    ];
    g.emit("E0", "eight-field", None, &eight);
    g.emit("E1", "eight-field", Some((0x06, 0xe0)), &eight);

    // ---- F6: tag sweep, every one-byte number and a set of two-byte numbers
    let mut tags: Vec<u16> = (0u16..=0xff).filter(|t| *t != 0x1f && *t != 0xff).collect();
    for hi in [0x1f00u16, 0xff00] {
        for lo in [0x00u16, 0x01, 0x1f, 0x3f, 0x7f, 0x80, 0xfe, 0xff] {
            tags.push(hi | lo);
        }
    }
    for (k, chunk) in tags.chunks(16).enumerate() {
        let fields: Vec<FK> = chunk.iter().map(|t| fk(Pos::Bmp(*t), LenK::Empty, Ty::U8, EncK::Default, Wrap::Opt)).collect();
        g.emit(&format!("T{k}"), "tag-sweep-bmp", None, &fields);
        let fields: Vec<FK> = chunk.iter().map(|t| fk(Pos::Tlv(*t), LenK::Tlv, Ty::U8, EncK::Default, Wrap::Opt)).collect();
        g.emit(&format!("U{k}"), "tag-sweep-tlv", None, &fields);
    }

    // ---- F7: control field on a cross-section
    let mut idx = 0;
    for a in &kinds8 {
        for b in &kinds8 {
            if a.tagged() && !b.tagged() {
                continue;
            }
            g.emit(&format!("K{idx}"), "command", Some((0x06, 0xa0 + (idx % 16) as u8)), &[a.with_tag(0), b.with_tag(1)]);
            idx += 1;
        }
    }
    g.emit("K900", "command", Some((0x80, 0x00)), &[]);

    let mut src = String::new();
    src.push_str("// GENERATED by build.rs\n");
    src.push_str(&g.structs);
    src.push_str("pub fn registry() -> Vec<Entry> {\n    vec![\n");
    src.push_str(&g.registry);
    src.push_str("    ]\n}\n");
    std::fs::write(format!("{out}/structs.rs"), src).unwrap();
    std::fs::write(format!("{out}/table.dsl"), &g.dsl).unwrap();
    println!("cargo:rerun-if-changed=build.rs");
    println!("cargo:warning=genstructs: {} struct definitions generated", g.n);
}
