//! C12 - the derive macro implements the declared layout for any user-defined struct.
//! The struct definitions are enumerated by build.rs and compiled with the real macro; here every
//! value of a small product domain is encoded / decoded by the generated code and compared with
//! the reference codec interpreting the same layout description.
#![allow(non_snake_case, clippy::all)]
use serde_json::json;
use std::fmt::Debug;
use std::time::Instant;
use vcore::alloc::{peak_since, reset_peak};
use vcore::codec::*;
use vcore::layout::*;
use vcore::report::*;
use vcore::tree::*;
use zvt_builder::Tag;
use zvt_builder::{encoding, ZVTError, ZvtSerializer};

#[global_allocator]
static ALLOC: vcore::alloc::Counting = vcore::alloc::Counting;

pub struct Entry {
    pub name: &'static str,
    pub family: &'static str,
    pub encode: fn(&Val) -> Vec<u8>,
    /// decode `bytes` and compare with the natively built value: (equal, remainder length, Debug)
    pub roundtrip: fn(&Val, &[u8]) -> Result<(bool, usize, String), ZVTError>,
    pub decode: fn(&[u8]) -> Result<usize, ZVTError>,
}

fn text(v: &Val) -> String {
    match v {
        Val::Text(s) | Val::Hex(s) => s.clone(),
        _ => panic!("not text: {v:?}"),
    }
}
fn opt<T>(v: &Val, f: impl Fn(&Val) -> T) -> Option<T> {
    match v {
        Val::None => None,
        Val::Some(b) => Some(f(b)),
        _ => panic!("not an option: {v:?}"),
    }
}
fn list<T>(v: &Val, f: impl Fn(&Val) -> T) -> Vec<T> {
    match v {
        Val::List(l) => l.iter().map(f).collect(),
        _ => panic!("not a list"),
    }
}
fn enc<T>(x: &T) -> Vec<u8>
where
    T: ZvtSerializer,
    encoding::Default: encoding::Encoding<T>,
{
    x.zvt_serialize()
}
fn rt<T>(x: &T, b: &[u8]) -> Result<(bool, usize, String), ZVTError>
where
    T: ZvtSerializer + PartialEq + Debug,
    encoding::Default: encoding::Encoding<T>,
{
    let (y, rest) = T::zvt_deserialize(b)?;
    Ok((y == *x, rest.len(), format!("{y:?}")))
}
fn dec<T>(b: &[u8]) -> Result<usize, ZVTError>
where
    T: ZvtSerializer,
    encoding::Default: encoding::Encoding<T>,
{
    T::zvt_deserialize(b).map(|(_, r)| r.len())
}

include!(concat!(env!("OUT_DIR"), "/structs.rs"));

const TABLE_DSL: &str = include_str!(concat!(env!("OUT_DIR"), "/table.dsl"));

/// small alphabet of the inner value of a field (<= 4 values)
fn small_alphabet(table: &Table, f: &FieldDef) -> Vec<Val> {
    let s = |n: usize| -> String { (0..n).map(|i| (b'a' + ((i * 5 + n) % 26) as u8) as char).collect() };
    match &f.enc {
        Enc::Le(n) | Enc::Be(n) => match n {
            1 => vec![Val::Int(0), Val::Int(0x7f), Val::Int(0xff)],
            2 => vec![Val::Int(0), Val::Int(0x1234), Val::Int(0xffff)],
            4 => vec![Val::Int(0), Val::Int(0x12345678), Val::Int(0xffff_ffff)],
            _ => vec![Val::Int(0), Val::Int(0x1122_3344_5566_7788), Val::Int(u64::MAX)],
        },
        Enc::Bcd(bits) => match bits {
            8 => vec![Val::Int(0), Val::Int(9), Val::Int(255)],
            16 => vec![Val::Int(0), Val::Int(978), Val::Int(65535)],
            32 => vec![Val::Int(0), Val::Int(123456), Val::Int(u32::MAX as u64)],
            _ => vec![Val::Int(0), Val::Int(2500), Val::Int(5598845555548074), Val::Int(u64::MAX)],
        },
        Enc::Txt => match &f.len {
            Len::Fixed(n) => vec![Val::Text(s(*n)), Val::Text(s(*n).to_uppercase())],
            Len::LL => vec![Val::Text(String::new()), Val::Text(s(1)), Val::Text(s(99))],
            Len::LLL => vec![Val::Text(String::new()), Val::Text(s(3)), Val::Text(s(128)), Val::Text(s(999))],
            _ => vec![Val::Text(String::new()), Val::Text(s(3)), Val::Text(s(128)), Val::Text(s(300)), Val::Text(s(4096)), Val::Text(s(40_000))],
        },
        Enc::Utf8 => match &f.len {
            // Fixed<4>: four bytes in both spellings
            Len::Fixed(n) => vec![Val::Text(s(*n)), Val::Text("\u{e4}\u{f6}".chars().cycle().take(n / 2).collect())],
            Len::LL => vec![Val::Text(String::new()), Val::Text(s(1)), Val::Text("Ger\u{e4}t \u{20ac}".into()), Val::Text("\u{1f980}\u{2192}\u{4e2d}".into())],
            _ => vec![Val::Text(String::new()), Val::Text(s(3)), Val::Text("Ger\u{e4}t \u{20ac}".into()), Val::Text("\u{1f980}\u{2192}\u{4e2d}".repeat(40))],
        },
        Enc::HexS => match &f.len {
            Len::Fixed(n) => vec![Val::Hex("0123abcd".chars().cycle().take(n * 2).collect()), Val::Hex("ff".repeat(*n))],
            Len::LL => vec![Val::Hex(String::new()), Val::Hex("00".into()), Val::Hex("a5".repeat(99))],
            Len::LLL => vec![Val::Hex(String::new()), Val::Hex("0123456789abcdef".into()), Val::Hex("5a".repeat(999))],
            _ => vec![Val::Hex(String::new()), Val::Hex("0123456789abcdef".into()), Val::Hex("5a".repeat(130)), Val::Hex("c3".repeat(5000))],
        },
        Enc::Nested(n) => {
            let ty = table.get(n);
            let mut out = vec![];
            // baseline, everything present, everything present with other values
            for pick in 0..3usize {
                out.push(Val::Struct(
                    ty.fields
                        .iter()
                        .map(|nf| {
                            let a = small_alphabet(table, nf);
                            let v = a[(pick + 1) % a.len()].clone();
                            match nf.wrap {
                                Wrap::Bare => v,
                                Wrap::Opt => {
                                    if pick == 0 {
                                        Val::None
                                    } else {
                                        Val::some(v)
                                    }
                                }
                                Wrap::Vec => Val::List(if pick == 0 { vec![] } else if pick == 1 { vec![v] } else { vec![v, a[0].clone()] }),
                            }
                        })
                        .collect(),
                ));
            }
            out
        }
        other => panic!("no small alphabet for {other:?}"),
    }
}

fn field_values(table: &Table, f: &FieldDef) -> Vec<Val> {
    let a = small_alphabet(table, f);
    match f.wrap {
        Wrap::Bare => a,
        Wrap::Opt => {
            let mut v = vec![Val::None];
            v.extend(a.into_iter().map(Val::some));
            v
        }
        Wrap::Vec => {
            let mut v = vec![Val::List(vec![])];
            for (i, x) in a.iter().enumerate() {
                v.push(Val::List(vec![x.clone()]));
                v.push(Val::List(vec![x.clone(), a[(i + 1) % a.len()].clone()]));
            }
            v.push(Val::List(vec![a[0].clone(), a[a.len() - 1].clone(), a[0].clone()]));
            v
        }
    }
}

fn values_of(table: &Table, ty: &TypeDef, family: &str) -> Vec<Val> {
    let per_field: Vec<Vec<Val>> = ty.fields.iter().map(|f| field_values(table, f)).collect();
    let mut out = vec![];
    if family == "eight-field" {
        // all 2^8 presence patterns, two value choices
        for pick in 0..2usize {
            for mask in 0..(1u32 << ty.fields.len()) {
                out.push(Val::Struct(
                    per_field
                        .iter()
                        .enumerate()
                        .map(|(i, vals)| if mask & (1 << i) != 0 { vals[1 + (pick % (vals.len() - 1))].clone() } else { vals[0].clone() })
                        .collect(),
                ));
            }
        }
        return out;
    }
    if family.starts_with("tag-sweep") {
        // nothing, each field alone, all fields
        let none: Vec<Val> = per_field.iter().map(|v| v[0].clone()).collect();
        out.push(Val::Struct(none.clone()));
        for i in 0..per_field.len() {
            let mut x = none.clone();
            x[i] = per_field[i][2].clone();
            out.push(Val::Struct(x));
        }
        out.push(Val::Struct(per_field.iter().map(|v| v[1].clone()).collect()));
        return out;
    }
    // the full product of the per-field values
    fn rec(i: usize, per_field: &Vec<Vec<Val>>, cur: &mut Vec<Val>, out: &mut Vec<Val>) {
        if i == per_field.len() {
            out.push(Val::Struct(cur.clone()));
            return;
        }
        for v in &per_field[i] {
            cur.push(v.clone());
            rec(i + 1, per_field, cur, out);
            cur.pop();
        }
    }
    rec(0, &per_field, &mut vec![], &mut out);
    out
}

fn main() {
    let args: Vec<String> = std::env::args().collect();
    if args.len() < 3 || args[1] != "C12" {
        eprintln!("usage: genstructs C12 <quick|thorough> [--replay FILE]");
        std::process::exit(EXIT_MACHINERY);
    }
    let tier = args[2].clone();
    let mut replay_only = None;
    if args.len() >= 5 && args[3] == "--replay" {
        let txt = std::fs::read_to_string(&args[4]).expect("replay file");
        let mut v: serde_json::Value = serde_json::from_str(&txt).expect("replay json");
        v["__path"] = json!(args[4]);
        replay_only = Some(v);
    }
    let seed = std::env::var("VERIF_SEED").ok().and_then(|s| s.parse::<i64>().ok()).unwrap_or(0) as u64;
    let verif_dir = std::env::var("VERIF_DIR").unwrap_or_else(|_| "/verif".to_string());
    let run = RunInfo { property: "C12".into(), tier, seed, start: Instant::now(), verif_dir, replay_only };
    quiet_panics();
    start_watchdog("C12", &run.verif_dir, 20, 24 << 30);
    let table = parse_table(TABLE_DSL);
    let reg = registry();
    let mut acc = par_for(reg.len(), |ix, acc| {
        let e = &reg[ix];
        let ty = table.get(e.name);
        let codec = Codec::new(&table);
        acc.count("programs", 1);
        acc.count(&format!("family:{}", e.family), 1);
        watch_enter(|| format!("c12 struct {} ({})", e.name, e.family));
        for v in values_of(&table, ty, e.family) {
            acc.count("values", 1);
            let Ok(want) = codec.encode(ty, &v) else {
                acc.count("values_unencodable", 1);
                continue;
            };
            let layout: String = ty.fields.iter().map(|f| format!("{} {:?} {:?} {:?} {:?}", f.name, f.tag.map(|t| format!("{t:#x}")), f.len, f.enc, f.wrap)).collect::<Vec<_>>().join("; ");
            let dbg = codec.debug_string(ty, &v);
            let key = format!("c12/{}/{}/{:016x}", e.family, e.name, h64(&want));
            // (1) the generated serialiser implements the declared layout
            acc.count("cases", 1);
            acc.count("calls", 1);
            watch_tick();
            match guarded(|| (e.encode)(&v)) {
                Err(p) => acc.violation(Violation { key: format!("{key}/encode-panic"), detail: format!("struct {} [{layout}]\nvalue {dbg}\nserialising panicked: {p}", e.name), replay: json!({"key": format!("{key}/encode-panic")}), rank: want.len() as u64 }),
                Ok(got) => {
                    if got != want {
                        acc.violation(Violation {
                            key: format!("{key}/encode"),
                            detail: format!("struct {} [{layout}]\nvalue {dbg}\ngenerated serialiser: {}\ndeclared layout    : {}", e.name, hex_short(&got), hex_short(&want)),
                            replay: json!({"key": format!("{key}/encode")}),
                            rank: want.len() as u64,
                        });
                    } else {
                        acc.count("encode_agreed", 1);
                    }
                }
            }
            // (2) for canonical values the deserialiser is the inverse
            if codec.canonical(ty, &v).is_some() {
                acc.count("canonical", 1);
                acc.count("calls", 1);
                watch_tick();
                let base = reset_peak();
                let r = guarded(|| (e.roundtrip)(&v, &want));
                let peak = peak_since(base);
                match r {
                    Err(p) => acc.violation(Violation { key: format!("{key}/decode-panic"), detail: format!("struct {} [{layout}]\nvalue {dbg}\nbytes {}\ndeserialising panicked: {p}", e.name, hex_short(&want)), replay: json!({"key": format!("{key}/decode-panic")}), rank: want.len() as u64 }),
                    Ok(Ok((true, 0, _))) => acc.count("decode_agreed", 1),
                    Ok(other) => acc.violation(Violation {
                        key: format!("{key}/decode"),
                        detail: format!("struct {} [{layout}]\nvalue {dbg}\nbytes {}\ngenerated deserialiser returned {other:?} (expected the value and no remainder)", e.name, hex_short(&want)),
                        replay: json!({"key": format!("{key}/decode")}),
                        rank: want.len() as u64,
                    }),
                }
                if peak > 1024 * want.len() + 65536 {
                    acc.violation(Violation { key: format!("{key}/alloc"), detail: format!("struct {} [{layout}]\nbytes {}\ndeserialising allocated {peak} bytes", e.name, hex_short(&want)), replay: json!({"key": format!("{key}/alloc")}), rank: want.len() as u64 });
                }
            } else {
                // not canonical: decoding must still terminate without panic and within the allocation bound
                acc.count("calls", 1);
                watch_tick();
                let base = reset_peak();
                let r = guarded(|| (e.decode)(&want));
                let peak = peak_since(base);
                if let Err(p) = r {
                    acc.violation(Violation { key: format!("{key}/decode-panic"), detail: format!("struct {} [{layout}]\nbytes {}\ndeserialising panicked: {p}", e.name, hex_short(&want)), replay: json!({"key": format!("{key}/decode-panic")}), rank: want.len() as u64 });
                }
                if peak > 1024 * want.len() + 65536 {
                    acc.violation(Violation { key: format!("{key}/alloc"), detail: format!("struct {} [{layout}]\nbytes {}\ndeserialising allocated {peak} bytes", e.name, hex_short(&want)), replay: json!({"key": format!("{key}/alloc")}), rank: want.len() as u64 });
                }
            }
            // (3) tagged groups of the generated structs: any order, duplicates and missing mandatory
            //     fields reported (the derive macro's part of C13, on layouts no shipped packet uses)
            if codec.canonical(ty, &v).is_some() {
                if let Ok((bytes, spans)) = codec.encode_mapped(ty, &v) {
                    let nodes = build(&bytes, &spans);
                    if render(ty, &nodes).as_deref() == Some(&bytes[..]) {
                        for (lp, under_rep) in levels(&nodes) {
                            let lvl = level(&nodes, &lp).to_vec();
                            let runs = tagged_runs(&lvl);
                            if runs.is_empty() {
                                continue;
                            }
                            let first_tagged = runs[0].0;
                            let n = runs.len();
                            let mk = |edited: Vec<Node>| -> Option<Vec<u8>> {
                                let mut t = nodes.clone();
                                *level_mut(&mut t, &lp) = edited;
                                render(ty, &t)
                            };
                            if (2..=4).contains(&n) {
                                let mut orders: Vec<Vec<usize>> = vec![];
                                fn perms(cur: &mut Vec<usize>, n: usize, out: &mut Vec<Vec<usize>>) {
                                    if cur.len() == n {
                                        out.push(cur.clone());
                                        return;
                                    }
                                    for i in 0..n {
                                        if !cur.contains(&i) {
                                            cur.push(i);
                                            perms(cur, n, out);
                                            cur.pop();
                                        }
                                    }
                                }
                                perms(&mut vec![], n, &mut orders);
                                for ord in orders.into_iter().skip(1) {
                                    let mut edited: Vec<Node> = lvl[..first_tagged].to_vec();
                                    for &r in &ord {
                                        let (s0, l0) = runs[r];
                                        edited.extend_from_slice(&lvl[s0..s0 + l0]);
                                    }
                                    let Some(input) = mk(edited) else { continue };
                                    if !matches!(codec.decode(ty, &input), Ok((ref rv, used)) if *rv == v && used == input.len()) {
                                        continue;
                                    }
                                    acc.count("cases", 1);
                                    acc.count("calls", 1);
                                    acc.count("permutations", 1);
                                    watch_tick();
                                    match guarded(|| (e.roundtrip)(&v, &input)) {
                                        Ok(Ok((true, 0, _))) => acc.count("perm_ok", 1),
                                        other => acc.violation(Violation {
                                            key: format!("{key}/perm={ord:?}@{lp:?}"),
                                            detail: format!("struct {} [{layout}]\nvalue {dbg}\nbytes {} with the tagged groups of level {lp:?} reordered as {ord:?}: {}\ngenerated deserialiser returned {other:?} (expected the same value)", e.name, hex_short(&want), hex_short(&input)),
                                            replay: json!({"key": format!("{key}/perm={ord:?}@{lp:?}")}),
                                            rank: want.len() as u64,
                                        }),
                                    }
                                }
                            }
                            if under_rep {
                                continue;
                            }
                            for &(s0, l0) in &runs {
                                if l0 != 1 || lvl[s0].repeated {
                                    continue;
                                }
                                let t = lvl[s0].tagnum.unwrap();
                                for pos in 0..=n {
                                    let at = if pos < n { runs[pos].0 } else { lvl.len() };
                                    let mut edited = lvl.clone();
                                    edited.insert(at, lvl[s0].clone());
                                    let Some(input) = mk(edited) else { continue };
                                    // a greedy field in front swallows the copy: only where the format itself sees a duplicate
                                    if codec.decode(ty, &input) != Err(RefErr::Duplicate(t)) {
                                        continue;
                                    }
                                    acc.count("cases", 1);
                                    acc.count("calls", 1);
                                    acc.count("duplicates", 1);
                                    watch_tick();
                                    match guarded(|| (e.roundtrip)(&v, &input)) {
                                        Ok(Err(ZVTError::DuplicateTag(Tag(x)))) if x == t => acc.count("dup_reported", 1),
                                        other => acc.violation(Violation {
                                            key: format!("{key}/dup={t:x}@{pos}@{lp:?}"),
                                            detail: format!("struct {} [{layout}]\nvalue {dbg}\ngroup with tag {t:#x} duplicated at position {pos} of level {lp:?}: {}\ngenerated deserialiser returned {other:?} (expected DuplicateTag(Tag({t})))", e.name, hex_short(&input)),
                                            replay: json!({"key": format!("{key}/dup={t:x}@{pos}@{lp:?}")}),
                                            rank: want.len() as u64,
                                        }),
                                    }
                                }
                            }
                            let mand: Vec<usize> = runs.iter().filter(|(s0, _)| lvl[*s0].mandatory).map(|(s0, _)| *s0).collect();
                            for mask in 1u32..(1 << mand.len().min(4)) {
                                let sub: Vec<usize> = mand.iter().enumerate().filter(|(i, _)| mask & (1 << i) != 0).map(|(_, s0)| *s0).collect();
                                let mut tags: Vec<u16> = sub.iter().map(|s0| lvl[*s0].tagnum.unwrap()).collect();
                                tags.sort();
                                let edited: Vec<Node> = lvl.iter().enumerate().filter(|(i, _)| !sub.contains(i)).map(|(_, nd)| nd.clone()).collect();
                                let Some(input) = mk(edited) else { continue };
                                if codec.decode(ty, &input) != Err(RefErr::Missing(tags.clone())) {
                                    continue;
                                }
                                acc.count("cases", 1);
                                acc.count("calls", 1);
                                acc.count("removals", 1);
                                watch_tick();
                                match guarded(|| (e.roundtrip)(&v, &input)) {
                                    Ok(Err(ZVTError::MissingRequiredTags(got))) if got.iter().map(|t| t.0).collect::<Vec<_>>() == tags => acc.count("missing_reported", 1),
                                    other => acc.violation(Violation {
                                        key: format!("{key}/remove={tags:x?}@{lp:?}"),
                                        detail: format!("struct {} [{layout}]\nvalue {dbg}\nmandatory groups {tags:x?} removed from level {lp:?}: {}\ngenerated deserialiser returned {other:?} (expected MissingRequiredTags({tags:?}))", e.name, hex_short(&input)),
                                        replay: json!({"key": format!("{key}/remove={tags:x?}@{lp:?}")}),
                                        rank: want.len() as u64,
                                    }),
                                }
                            }
                        }
                    }
                }
            }
            if acc.samples.len() < 3 && ty.fields.len() >= 2 {
                acc.sample(json!({"struct": e.name, "family": e.family, "layout": layout, "value": dbg, "bytes": hex_short(&want)}));
            }
        }
        watch_exit();
    });
    for (c, w) in [
        ("encode_agreed", "generated serialisers agreed with the declared layout"),
        ("decode_agreed", "generated deserialisers inverted the serialisers"),
        ("perm_ok", "reordered tagged groups of generated structs decoded to the same value"),
        ("dup_reported", "duplicated tags of generated structs reported"),
        ("missing_reported", "missing mandatory tags of generated structs reported"),
    ] {
        if acc.get(c) > 0 {
            acc.witness(w);
        }
    }
    let cases = acc.get("cases");
    acc.count("evaluations", cases);
    let programs = acc.get("programs");
    let summary = Summary {
        states: cases,
        transitions: acc.get("calls"),
        traces_validated: cases,
        distinct_nontrivial: acc.get("decode_agreed"),
        rule: format!("{programs} struct definitions enumerated at build time over the attribute grammar (all one-field structs over position {{positional, one-byte BMP, 1Fxx BMP, TLV}} x length {{none, Fixed, LLVAR, LLLVAR, TLV}} x 17 type/encoding kinds and 6 nested structs x {{bare, Option, Vec}}; all ordered pairs over a 24-kind alphabet and all ordered triples over an 8-kind alphabet respecting 'untagged before tagged'; nesting depth 3 through every length style and wrapper; an 8-field struct with all 256 presence patterns; every one-byte and selected two-byte tag numbers; a cross-section with zvt_control_field) compiled with the real derive macro x the product of small per-field value alphabets. Oracle: generated serialiser == reference codec on the emitted layout description for every encodable value; for canonical values the generated deserialiser returns the natively built value and no remainder; decoding always under the panic/allocation/progress monitors; for canonical values additionally all permutations of the tagged groups of every level (2..4 groups) must decode to the same value, every duplicated non-repeated group must be reported as DuplicateTag and every removed subset of mandatory groups as MissingRequiredTags (C13 on generated structs). distinct_nontrivial = canonical values decoded back"),
        exhaustive: true,
        required_witnesses: vec![
            "generated serialisers agreed with the declared layout".into(),
            "generated deserialisers inverted the serialisers".into(),
            "reordered tagged groups of generated structs decoded to the same value".into(),
            "duplicated tags of generated structs reported".into(),
            "missing mandatory tags of generated structs reported".into(),
        ],
        assumptions: vec![
            "struct definitions are enumerated over a finite grammar (<= 3 free field kinds, fixed tag numbers except in the tag sweep), not sampled".into(),
            "the macro's documented assumption 'untagged fields before tagged fields' is respected".into(),
        ],
        bounds: json!({"programs": programs}),
        caps_hit: vec![],
        evaluations_counter: "evaluations".into(),
        acc,
    };
    let code = finish(&run, summary);
    std::process::exit(code);
}
