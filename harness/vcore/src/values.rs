//! Value alphabets (DESIGN.md 5.2) and deviation-bounded whole-struct enumeration.
use crate::codec::*;
use crate::layout::*;

fn pow10(k: u32) -> u64 {
    10u64.saturating_pow(k)
}

/// integers for a BCD field of at most `digits` digits stored in an integer of `bits` bits
fn bcd_ints(digits: u32, bits: u32) -> Vec<u64> {
    let tmax: u64 = if bits >= 64 { u64::MAX } else { (1u64 << bits) - 1 };
    let dmax: u64 = if digits >= 20 { u64::MAX } else { pow10(digits) - 1 };
    let max = tmax.min(dmax);
    let mut v = vec![0u64, 1, 9, 10, 99, 100];
    if digits >= 2 {
        v.push(pow10(digits - 1).wrapping_sub(1));
        v.push(pow10(digits - 1));
    }
    v.push(dmax);
    v.push(tmax);
    // one mixed-digit pattern of odd and one of even digit count
    v.push(12345 % (max.saturating_add(1)).max(1));
    v.push(123456 % (max.saturating_add(1)).max(1));
    v.push(9876543210 % (max.saturating_add(1)).max(1));
    v.retain(|x| *x <= max);
    v.sort();
    v.dedup();
    v
}

fn word(n: usize) -> String {
    const A: &[u8] = b"ABCDEFGHIJKLMNOPQRSTUVWXYZ0123456789 abcdefghijklmnopqrstuvwxyz-.;=";
    (0..n).map(|i| A[(i * 7 + n) % A.len()] as char).collect()
}

fn all_cp437() -> String {
    (1u16..=255).map(|b| cp437_char(b as u8)).collect()
}

fn hexs(nbytes: usize) -> String {
    let mut s = String::new();
    for i in 0..nbytes {
        s.push_str(&format!("{:02x}", (i * 37 + 0xa5 + nbytes) & 0xff));
    }
    s
}

fn sizes_for(len: &Len) -> Vec<usize> {
    match len {
        Len::Fixed(n) => vec![*n],
        Len::LL => vec![0, 1, 10, 98, 99],
        Len::LLL => vec![0, 1, 10, 99, 100, 998, 999],
        Len::Ber => vec![0, 1, 10, 127, 128, 255, 256, 300],
        Len::None => vec![0, 1, 10, 99, 255],
        Len::Temp => vec![3, 4],
    }
}

/// The alphabet of the *inner* (unwrapped) value of a field.
pub fn alphabet(table: &Table, f: &FieldDef, budget: usize) -> Vec<Val> {
    match &f.enc {
        Enc::Le(n) | Enc::Be(n) => {
            let mut v: Vec<u64> = match n {
                1 => vec![0, 1, 0x7f, 0x80, 0xff],
                2 => vec![0, 1, 0xff, 0x100, 0x1234, 0xffff],
                4 => vec![0, 1, 0xff, 0x100, 0x12345678, 0xffff_ffff],
                _ => vec![0, 1, 0xff, 0x100, 0x1234_5678_9abc_def0, u64::MAX],
            };
            v.dedup();
            v.into_iter().map(Val::Int).collect()
        }
        Enc::Bcd(bits) => {
            let digits = match &f.len {
                Len::Fixed(n) => (*n as u32) * 2,
                Len::LL => 20,
                _ => 20,
            };
            bcd_ints(digits, *bits).into_iter().map(Val::Int).collect()
        }
        Enc::Rcpt => vec![0u64, 1, 9, 10, 231, 999, 1000, 9999, 0xffff].into_iter().map(Val::Int).collect(),
        Enc::Txt => {
            let mut out = vec![];
            for n in sizes_for(&f.len) {
                out.push(Val::Text(word(n)));
            }
            // the string of all 255 non-NUL CP437 bytes, an interior NUL, a trailing NUL (non canonical)
            match &f.len {
                Len::Fixed(n) => {
                    let all = all_cp437();
                    let chars: Vec<char> = all.chars().collect();
                    out.push(Val::Text(chars[128..128 + *n].iter().collect()));
                    if *n >= 3 {
                        let mut w: Vec<char> = word(*n).chars().collect();
                        w[1] = '\0';
                        out.push(Val::Text(w.into_iter().collect()));
                        let mut w: Vec<char> = word(*n).chars().collect();
                        w[0] = '\0';
                        out.push(Val::Text(w.into_iter().collect()));
                    }
                    if *n >= 2 {
                        out.push(Val::Text(word(*n - 1))); // shorter than the field: not canonical
                        let mut w: Vec<char> = word(*n).chars().collect();
                        w[*n - 2] = '\u{2554}';
                        w[*n - 1] = '\u{2557}';
                        if w[..*n - 2].iter().all(|c| c.is_ascii()) {
                            out.push(Val::Text(w.into_iter().collect()));
                        }
                    }
                }
                Len::LL => {
                    let all = all_cp437();
                    out.push(Val::Text(all.chars().skip(130).take(99).collect()));
                    out.push(Val::Text("A\0B".into()));
                    out.push(Val::Text("AB\0".into()));
                    out.push(Val::Text("\0AB".into()));
                    // CP437 bytes c9 bb / c3 a4: also well-formed UTF-8
                    out.push(Val::Text("\u{2554}\u{2557}".into()));
                    out.push(Val::Text("A\u{251c}\u{f1}".into()));
                }
                Len::Temp => {
                    out.push(Val::Text("8.0".into()));
                    out.push(Val::Text("24.4".into()));
                }
                _ => {
                    out.push(Val::Text(all_cp437()));
                    out.push(Val::Text("A\0B".into()));
                    out.push(Val::Text("AB\0".into()));
                    out.push(Val::Text("\0AB".into()));
                    out.push(Val::Text("\u{2554}\u{2557}".into()));
                    out.push(Val::Text("A\u{251c}\u{f1}".into()));
                }
            }
            out
        }
        Enc::Utf8 => {
            let mut out = vec![];
            for n in sizes_for(&f.len) {
                out.push(Val::Text(word(n)));
            }
            out.push(Val::Text("GER-APP-v2.0.9;cS02 \u{e4}\u{20ac}\u{1f980}".into()));
            out.push(Val::Text("\u{e4}\u{f6}".into()));
            out.push(Val::Text("Ger\u{e4}t \u{20ac}".into()));
            out
        }
        Enc::HexS => {
            let mut out = vec![Val::Hex("00".into()), Val::Hex("ff".into()), Val::Hex("0123456789abcdef".into())];
            for n in sizes_for(&f.len) {
                out.push(Val::Hex(hexs(n)));
            }
            out.dedup();
            out
        }
        Enc::Raw => [0usize, 1, 127, 128, 255, 256, 1068].iter().map(|n| Val::Bytes((0..*n).map(|i| (i * 31 + 7) as u8).collect())).collect(),
        Enc::Dt => {
            let mut out = vec![];
            for y in [2023, 1, 999, 2024, 9999, 2020, 2021, 2026] {
                for m in 1..=12u32 {
                    for d in [1u32, 2, 3, 28, 29, 30, 31] {
                        if !valid_date(y, m, d) {
                            continue;
                        }
                        for (h, mi, s) in [(0, 0, 0), (9, 5, 7), (23, 59, 59), (10, 0, 0), (23, 0, 22), (12, 30, 0)] {
                            out.push(Val::Dt(y, m, d, h, mi, s));
                        }
                    }
                }
            }
            out
        }
        Enc::Nested(n) => enumerate(table, table.get(n), budget),
    }
}

/// Baseline value of a type: optionals absent, repeated empty, mandatory fields at their first
/// alphabet value.
pub fn baseline(table: &Table, ty: &TypeDef) -> Val {
    Val::Struct(
        ty.fields
            .iter()
            .map(|f| match f.wrap {
                Wrap::Opt => Val::None,
                Wrap::Vec => Val::List(vec![]),
                Wrap::Bare => match &f.enc {
                    Enc::Nested(n) => baseline(table, table.get(n)),
                    _ => alphabet(table, f, 0).into_iter().next().unwrap(),
                },
            })
            .collect(),
    )
}

/// All non-baseline alternatives of one field together with their cost in deviations.
fn field_alternatives(table: &Table, f: &FieldDef, budget: usize) -> Vec<(Val, usize)> {
    if budget == 0 {
        return vec![];
    }
    let mut out = vec![];
    match (&f.wrap, &f.enc) {
        (Wrap::Bare, Enc::Nested(n)) => {
            // deviations inside the nested struct count directly
            for (v, c) in enumerate_costed(table, table.get(n), budget) {
                if c > 0 {
                    out.push((v, c));
                }
            }
        }
        (Wrap::Bare, _) => {
            for v in alphabet(table, f, 0).into_iter().skip(1) {
                out.push((v, 1));
            }
        }
        (Wrap::Opt, Enc::Nested(n)) => {
            for (v, c) in enumerate_costed(table, table.get(n), budget - 1) {
                out.push((Val::some(v), c + 1));
            }
        }
        (Wrap::Opt, _) => {
            for v in alphabet(table, f, 0) {
                out.push((Val::some(v), 1));
            }
        }
        (Wrap::Vec, enc) => {
            let elems: Vec<(Val, usize)> = match enc {
                Enc::Nested(n) => enumerate_costed(table, table.get(n), budget - 1),
                _ => alphabet(table, f, 0).into_iter().map(|v| (v, 0)).collect(),
            };
            let m = elems.len();
            for len in 1..=3usize {
                for j in 0..m {
                    let mut l = vec![];
                    let mut cost = 1;
                    for e in 0..len {
                        let (v, c) = &elems[(j + e) % m];
                        l.push(v.clone());
                        cost = cost.max(1 + c);
                    }
                    if cost <= budget {
                        out.push((Val::List(l), cost));
                    }
                }
            }
        }
    }
    out.retain(|(_, c)| *c <= budget);
    out
}

/// All values of `ty` with at most `budget` deviating fields (counted through nesting), each
/// with its cost.
pub fn enumerate_costed(table: &Table, ty: &TypeDef, budget: usize) -> Vec<(Val, usize)> {
    let base = baseline(table, ty);
    let alts: Vec<Vec<(Val, usize)>> = ty.fields.iter().map(|f| field_alternatives(table, f, budget)).collect();
    let mut out = vec![];
    fn rec(i: usize, cur: &mut Vec<Val>, cost: usize, budget: usize, alts: &Vec<Vec<(Val, usize)>>, out: &mut Vec<(Val, usize)>) {
        if i == alts.len() {
            out.push((Val::Struct(cur.clone()), cost));
            return;
        }
        // baseline for this field
        rec(i + 1, cur, cost, budget, alts, out);
        if cost < budget {
            let saved = cur[i].clone();
            for (v, c) in &alts[i] {
                if cost + c <= budget {
                    cur[i] = v.clone();
                    rec(i + 1, cur, cost + c, budget, alts, out);
                }
            }
            cur[i] = saved;
        }
    }
    let mut cur = base.fields().clone();
    rec(0, &mut cur, 0, budget, &alts, &mut out);
    out
}

pub fn enumerate(table: &Table, ty: &TypeDef, budget: usize) -> Vec<Val> {
    enumerate_costed(table, ty, budget).into_iter().map(|(v, _)| v).collect()
}

/// "Everything present" rows: every optional present, repeated fields with `vlen` elements,
/// each field at alphabet index `pick` (modulo its alphabet size).
pub fn all_present(table: &Table, ty: &TypeDef, pick: usize, vlen: usize) -> Val {
    Val::Struct(
        ty.fields
            .iter()
            .map(|f| {
                let inner = |k: usize| -> Val {
                    match &f.enc {
                        Enc::Nested(n) => all_present(table, table.get(n), pick + k, vlen),
                        _ => {
                            let a = alphabet(table, f, 0);
                            a[(pick + k) % a.len()].clone()
                        }
                    }
                };
                match f.wrap {
                    Wrap::Bare => inner(0),
                    Wrap::Opt => Val::some(inner(0)),
                    Wrap::Vec => Val::List((0..vlen).map(inner).collect()),
                }
            })
            .collect(),
    )
}

/// Values of positional optional / repeated fields whose first encoded byte equals the first byte
/// of a tag of the same struct (a present value that "looks like" the next tagged field). Both on
/// the baseline and on the all-present row of the type.
pub fn tag_collisions(table: &Table, ty: &TypeDef) -> Vec<Val> {
    let mut leads: Vec<u8> = ty.fields.iter().filter_map(|f| f.tag).map(|t| if t > 0xff { (t >> 8) as u8 } else { t as u8 }).collect();
    leads.sort();
    leads.dedup();
    let mut out = vec![];
    for (i, f) in ty.fields.iter().enumerate() {
        if f.tag.is_some() || f.wrap == Wrap::Bare {
            continue;
        }
        for &lead in &leads {
            let width = match f.len {
                Len::Fixed(n) => Some(n),
                Len::None => match &f.enc {
                    Enc::Le(n) | Enc::Be(n) => Some(*n),
                    _ => None,
                },
                _ => None,
            };
            let leaf: Option<Val> = match (&f.enc, &f.len) {
                (Enc::Bcd(_), Len::Fixed(n)) if lead >> 4 <= 9 && lead & 0xf <= 9 && *n >= 1 && *n <= 9 => {
                    let d = ((lead >> 4) as u64) * 10 + (lead & 0xf) as u64;
                    Some(Val::Int(d * 100u64.pow(*n as u32 - 1)))
                }
                (Enc::Le(_), _) if width.is_some() => Some(Val::Int(lead as u64)),
                (Enc::Be(_), _) if width.is_some() => Some(Val::Int((lead as u64) << (8 * (width.unwrap() - 1)))),
                (Enc::HexS, Len::Fixed(n)) => Some(Val::Hex(format!("{lead:02x}{}", "5a".repeat(n - 1)))),
                (Enc::HexS, Len::None) => Some(Val::Hex(format!("{lead:02x}5a"))),
                (Enc::Txt, Len::Fixed(n)) if lead != 0 => Some(Val::Text(std::iter::once(cp437_char(lead)).chain(std::iter::repeat('A').take(n - 1)).collect())),
                (Enc::Txt, Len::None) if lead != 0 => Some(Val::Text(format!("{}A", cp437_char(lead)))),
                // the length byte of a BER-prefixed payload equals the tag when the payload has that many bytes
                (Enc::Txt, Len::Ber) if lead < 128 && lead > 0 => Some(Val::Text("A".repeat(lead as usize))),
                (Enc::HexS, Len::Ber) if lead < 128 && lead > 0 => Some(Val::Hex("5a".repeat(lead as usize))),
                _ => None,
            };
            let Some(leaf) = leaf else { continue };
            for base in [baseline(table, ty), all_present(table, ty, 0, 1)] {
                let mut v = base;
                v.fields_mut()[i] = match f.wrap {
                    Wrap::Opt => Val::some(leaf.clone()),
                    _ => Val::List(vec![leaf.clone()]),
                };
                out.push(v);
            }
        }
    }
    out
}

/// Paths to every variable-length leaf (text / hex / raw / utf8 with a non-fixed length), as a
/// list of field indices through nested structs; used for the sizing rows.
pub fn variable_leaves(table: &Table, ty: &TypeDef) -> Vec<Vec<usize>> {
    let mut out = vec![];
    for (i, f) in ty.fields.iter().enumerate() {
        match &f.enc {
            Enc::Nested(n) => {
                for mut p in variable_leaves(table, table.get(n)) {
                    p.insert(0, i);
                    out.push(p);
                }
            }
            Enc::Txt | Enc::Utf8 | Enc::HexS | Enc::Raw => {
                if !matches!(f.len, Len::Fixed(_) | Len::Temp) {
                    out.push(vec![i]);
                }
            }
            _ => {}
        }
    }
    out
}

/// Baseline value with the leaf at `path` present and sized to `n` bytes (all containers on the
/// way made present; a repeated container gets one element).
pub fn sized(table: &Table, ty: &TypeDef, path: &[usize], n: usize) -> Val {
    let mut v = baseline(table, ty);
    set_path(table, ty, &mut v, path, n);
    v
}

fn set_path(table: &Table, ty: &TypeDef, v: &mut Val, path: &[usize], n: usize) {
    let f = &ty.fields[path[0]];
    let inner: Val = if path.len() == 1 {
        match &f.enc {
            Enc::Txt | Enc::Utf8 => Val::Text(word(n)),
            Enc::HexS => Val::Hex(hexs(n)),
            Enc::Raw => Val::Bytes((0..n).map(|i| (i * 13 + 1) as u8).collect()),
            _ => unreachable!(),
        }
    } else {
        let Enc::Nested(nm) = &f.enc else { unreachable!() };
        let nt = table.get(nm);
        let mut nv = baseline(table, nt);
        set_path(table, nt, &mut nv, &path[1..], n);
        nv
    };
    v.fields_mut()[path[0]] = match f.wrap {
        Wrap::Bare => inner,
        Wrap::Opt => Val::some(inner),
        Wrap::Vec => Val::List(vec![inner]),
    };
}

/// Count the leaves that differ from the baseline (used for coverage witnesses).
pub fn nonbaseline_fields(table: &Table, ty: &TypeDef, v: &Val, prefix: &str, out: &mut Vec<String>) {
    let base = baseline(table, ty);
    for ((f, fv), bv) in ty.fields.iter().zip(v.fields()).zip(base.fields()) {
        if fv != bv {
            out.push(format!("{prefix}{}.{}", ty.key, f.name));
            if let Enc::Nested(n) = &f.enc {
                let nt = table.get(n);
                let mut visit = |x: &Val| nonbaseline_fields(table, nt, x, prefix, out);
                match fv {
                    Val::Struct(_) => visit(fv),
                    Val::Some(b) => visit(b),
                    Val::List(l) => l.iter().for_each(|x| visit(x)),
                    _ => {}
                }
            }
        }
    }
}

/// Visitor form of `enumerate_costed` that does not materialise the value list. `first` selects
/// the slice of the space in which field `first` is the first deviating field (None: only the
/// baseline value), so disjoint slices can be handed to different threads.
pub fn enumerate_visit(table: &Table, ty: &TypeDef, budget: usize, first: Option<usize>, f: &mut dyn FnMut(&Val, usize)) {
    let base = baseline(table, ty);
    let Some(first) = first else {
        f(&base, 0);
        return;
    };
    if budget == 0 {
        return;
    }
    let alts: Vec<Vec<(Val, usize)>> = ty
        .fields
        .iter()
        .enumerate()
        .map(|(i, fd)| if i >= first { field_alternatives(table, fd, budget) } else { vec![] })
        .collect();
    fn rec(i: usize, cur: &mut Vec<Val>, cost: usize, budget: usize, alts: &Vec<Vec<(Val, usize)>>, f: &mut dyn FnMut(&Val, usize)) {
        if i == alts.len() {
            let v = Val::Struct(std::mem::take(cur));
            f(&v, cost);
            if let Val::Struct(x) = v {
                *cur = x;
            }
            return;
        }
        rec(i + 1, cur, cost, budget, alts, f);
        if cost < budget {
            let saved = cur[i].clone();
            for (v, c) in &alts[i] {
                if cost + c <= budget {
                    cur[i] = v.clone();
                    rec(i + 1, cur, cost + c, budget, alts, f);
                }
            }
            cur[i] = saved;
        }
    }
    let mut cur = base.fields().clone();
    let saved = cur[first].clone();
    for (v, c) in &alts[first] {
        if *c <= budget {
            cur[first] = v.clone();
            rec(first + 1, &mut cur, *c, budget, &alts, f);
        }
    }
    cur[first] = saved;
}


/// Paths to every repeated field (through nested structs); for the rows with many items.
pub fn repeated_fields(table: &Table, ty: &TypeDef) -> Vec<Vec<usize>> {
    let mut out = vec![];
    for (i, f) in ty.fields.iter().enumerate() {
        if f.wrap == Wrap::Vec {
            out.push(vec![i]);
        } else if let Enc::Nested(n) = &f.enc {
            for mut p in repeated_fields(table, table.get(n)) {
                p.insert(0, i);
                out.push(p);
            }
        }
    }
    out
}

/// Baseline value in which the repeated field at `path` holds `n` items (containers on the way
/// made present).
pub fn repeated(table: &Table, ty: &TypeDef, path: &[usize], n: usize) -> Val {
    let mut v = baseline(table, ty);
    fn set(table: &Table, ty: &TypeDef, v: &mut Val, path: &[usize], n: usize) {
        let f = &ty.fields[path[0]];
        if path.len() == 1 {
            let a: Vec<Val> = match &f.enc {
                Enc::Nested(nm) => {
                    let nt = table.get(nm);
                    vec![all_present(table, nt, 1, 1), all_present(table, nt, 2, 1), baseline(table, nt)]
                }
                _ => alphabet(table, f, 0),
            };
            v.fields_mut()[path[0]] = Val::List((0..n).map(|i| a[(i * 7 + 1) % a.len()].clone()).collect());
            return;
        }
        let Enc::Nested(nm) = &f.enc else { unreachable!() };
        let nt = table.get(nm);
        let mut nv = baseline(table, nt);
        set(table, nt, &mut nv, &path[1..], n);
        v.fields_mut()[path[0]] = match f.wrap {
            Wrap::Bare => nv,
            Wrap::Opt => Val::some(nv),
            Wrap::Vec => Val::List(vec![nv]),
        };
    }
    set(table, ty, &mut v, path, n);
    v
}
