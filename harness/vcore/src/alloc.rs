//! Counting global allocator: per-thread live bytes and peak, so a single decode call can be
//! held to "peak live allocation <= small multiple of the input" (C02, C12). Every thread writes
//! only its own cache-line-aligned slot (no contention); the memory watchdog sums the slots.
use std::alloc::{GlobalAlloc, Layout, System};
use std::cell::Cell;
use std::sync::atomic::{AtomicIsize, AtomicUsize, Ordering::Relaxed};

const NSLOTS: usize = 64;

#[repr(align(128))]
struct Slot {
    live: AtomicIsize,
    peak: AtomicIsize,
}

static SLOTS: [Slot; NSLOTS] = [const { Slot { live: AtomicIsize::new(0), peak: AtomicIsize::new(0) } }; NSLOTS];
static NEXT: AtomicUsize = AtomicUsize::new(0);

thread_local! {
    static IDX: Cell<usize> = const { Cell::new(usize::MAX) };
}

#[inline]
fn slot() -> &'static Slot {
    let k = IDX
        .try_with(|i| {
            let mut k = i.get();
            if k == usize::MAX {
                k = NEXT.fetch_add(1, Relaxed) % NSLOTS;
                i.set(k);
            }
            k
        })
        .unwrap_or(NSLOTS - 1);
    &SLOTS[k]
}

#[inline]
fn add(delta: isize) {
    let s = slot();
    let v = s.live.fetch_add(delta, Relaxed) + delta;
    if delta > 0 && v > s.peak.load(Relaxed) {
        s.peak.store(v, Relaxed);
    }
}

pub struct Counting;

unsafe impl GlobalAlloc for Counting {
    unsafe fn alloc(&self, l: Layout) -> *mut u8 {
        add(l.size() as isize);
        System.alloc(l)
    }
    unsafe fn dealloc(&self, p: *mut u8, l: Layout) {
        add(-(l.size() as isize));
        System.dealloc(p, l)
    }
    unsafe fn realloc(&self, p: *mut u8, l: Layout, new: usize) -> *mut u8 {
        add(new as isize - l.size() as isize);
        System.realloc(p, l, new)
    }
}

/// Start measuring on the calling thread: peak := live.
pub fn reset_peak() -> isize {
    let s = slot();
    let live = s.live.load(Relaxed);
    s.peak.store(live, Relaxed);
    live
}

/// Peak live bytes of the calling thread above the level at `reset_peak`.
pub fn peak_since(base: isize) -> usize {
    (slot().peak.load(Relaxed) - base).max(0) as usize
}

/// Live bytes of the whole process (memory watchdog). Memory freed by another thread than the
/// one that allocated it makes single slots drift, the sum stays exact.
pub fn process_live() -> isize {
    SLOTS.iter().map(|s| s.live.load(Relaxed)).sum()
}
