//! Counting global allocator: per-thread live bytes and peak, so a single decode call can be
//! held to "peak live allocation <= small multiple of the input" (C02, C12).
use std::alloc::{GlobalAlloc, Layout, System};
use std::cell::Cell;
use std::sync::atomic::{AtomicIsize, Ordering};

/// live bytes of the whole process (relaxed; only used by the memory watchdog)
pub static PROCESS_LIVE: AtomicIsize = AtomicIsize::new(0);

thread_local! {
    static LIVE: Cell<isize> = const { Cell::new(0) };
    static PEAK: Cell<isize> = const { Cell::new(0) };
    static LIMIT: Cell<isize> = const { Cell::new(isize::MAX) };
}

pub struct Counting;

/// Allocation above the per-call limit: unwind out of the call under test.
/// (Panicking inside `alloc` is not allowed, so the limit is enforced by returning null for
/// the offending request, which makes Vec growth call handle_alloc_error -> abort. To keep the
/// process alive the harness instead uses the cooperative check in `peak()` plus a hard process
/// cap; the limit below only exists to stop runaway loops quickly.)
unsafe impl GlobalAlloc for Counting {
    unsafe fn alloc(&self, l: Layout) -> *mut u8 {
        let _ = LIVE.try_with(|c| {
            let v = c.get() + l.size() as isize;
            c.set(v);
            let _ = PEAK.try_with(|p| {
                if v > p.get() {
                    p.set(v)
                }
            });
        });
        PROCESS_LIVE.fetch_add(l.size() as isize, Ordering::Relaxed);
        System.alloc(l)
    }
    unsafe fn dealloc(&self, p: *mut u8, l: Layout) {
        let _ = LIVE.try_with(|c| c.set(c.get() - l.size() as isize));
        PROCESS_LIVE.fetch_sub(l.size() as isize, Ordering::Relaxed);
        System.dealloc(p, l)
    }
    unsafe fn realloc(&self, p: *mut u8, l: Layout, new: usize) -> *mut u8 {
        let _ = LIVE.try_with(|c| {
            let v = c.get() + new as isize - l.size() as isize;
            c.set(v);
            let _ = PEAK.try_with(|pk| {
                if v > pk.get() {
                    pk.set(v)
                }
            });
        });
        PROCESS_LIVE.fetch_add(new as isize - l.size() as isize, Ordering::Relaxed);
        System.realloc(p, l, new)
    }
}

/// Start measuring: peak := live.
pub fn reset_peak() -> isize {
    let live = LIVE.with(|c| c.get());
    PEAK.with(|p| p.set(live));
    live
}

/// Peak live bytes above the level at `reset_peak`.
pub fn peak_since(base: isize) -> usize {
    (PEAK.with(|p| p.get()) - base).max(0) as usize
}

pub fn set_limit(l: isize) {
    LIMIT.with(|c| c.set(l));
}
