//! Layout table: an independent, data-only statement of the wire layout of
//! every shipped packet / TLV container (DESIGN.md Appendix A), plus the parser
//! of the small DSL it is written in. The same DSL describes the generated
//! structs of C12.
use std::collections::BTreeMap;

#[derive(Clone, Debug, PartialEq)]
pub enum Len {
    /// no length prefix: u8 = one byte, otherwise greedy to the end of the container
    None,
    Fixed(usize),
    LL,
    LLL,
    Ber,
    /// Feig temperature quirk: 3 or 4 bytes, whatever is left (min(rest,4), at least 3)
    Temp,
}

#[derive(Clone, Debug, PartialEq)]
pub enum Enc {
    /// little endian integer of n bytes (n=1: u8)
    Le(usize),
    /// big endian integer of n bytes
    Be(usize),
    /// packed BCD into an unsigned integer of `bits` bits
    Bcd(u32),
    /// receipt number: BCD, or FF FF for 0xFFFF
    Rcpt,
    /// CP437 text, trailing NULs are padding
    Txt,
    Utf8,
    /// lower-case hex string of the raw bytes
    HexS,
    /// raw bytes (Vec<u8>), empty = absent
    Raw,
    /// date/time container 1F0E (YYYYMMDD) + 1F0F (HHMMSS)
    Dt,
    Nested(String),
}

#[derive(Clone, Debug, PartialEq)]
pub enum Wrap {
    Bare,
    Opt,
    Vec,
}

#[derive(Clone, Debug)]
pub struct FieldDef {
    pub name: String,
    pub tag: Option<u16>,
    pub len: Len,
    pub enc: Enc,
    pub wrap: Wrap,
}

#[derive(Clone, Debug)]
pub struct TypeDef {
    /// unique key in the table (e.g. "tlv::StatusInformation")
    pub key: String,
    /// name printed by the real type's Debug implementation
    pub debug_name: String,
    pub ctrl: Option<(u8, u8)>,
    pub fields: Vec<FieldDef>,
}

#[derive(Clone, Debug, Default)]
pub struct Table {
    pub types: BTreeMap<String, TypeDef>,
    pub order: Vec<String>,
}

impl Table {
    pub fn get(&self, key: &str) -> &TypeDef {
        self.types.get(key).unwrap_or_else(|| panic!("layout table has no type {key}"))
    }
    pub fn commands(&self) -> Vec<&TypeDef> {
        self.order.iter().map(|k| self.get(k)).filter(|t| t.ctrl.is_some()).collect()
    }
    pub fn all(&self) -> Vec<&TypeDef> {
        self.order.iter().map(|k| self.get(k)).collect()
    }
}

fn parse_tag(s: &str) -> Option<u16> {
    if s == "pos" {
        return None;
    }
    let body = s.strip_prefix('B').or_else(|| s.strip_prefix('T')).unwrap_or_else(|| panic!("bad tag spec {s}"));
    Some(u16::from_str_radix(body, 16).unwrap_or_else(|_| panic!("bad tag spec {s}")))
}

fn parse_len(s: &str) -> Len {
    match s {
        "-" => Len::None,
        "LL" => Len::LL,
        "LLL" => Len::LLL,
        "BER" => Len::Ber,
        "TEMP" => Len::Temp,
        _ => Len::Fixed(s.strip_prefix('F').and_then(|n| n.parse().ok()).unwrap_or_else(|| panic!("bad length spec {s}"))),
    }
}

fn parse_enc(s: &str) -> Enc {
    match s {
        "u8" => Enc::Le(1),
        "le16" => Enc::Le(2),
        "le32" => Enc::Le(4),
        "le64" => Enc::Le(8),
        "be8" => Enc::Be(1),
        "be16" => Enc::Be(2),
        "be32" => Enc::Be(4),
        "be64" => Enc::Be(8),
        "bcd" => Enc::Bcd(64),
        "bcd8" => Enc::Bcd(8),
        "bcd16" => Enc::Bcd(16),
        "bcd32" => Enc::Bcd(32),
        "rcpt" => Enc::Rcpt,
        "txt" => Enc::Txt,
        "utf8" => Enc::Utf8,
        "hex" => Enc::HexS,
        "raw" => Enc::Raw,
        "dt" => Enc::Dt,
        other => Enc::Nested(other.to_string()),
    }
}

/// DSL: a type starts with `type <key> [debug=<Name>] [ctrl=CCII]`, followed by
/// one line per field: `<name> <pos|Bxx|Txxxx> <-|Fn|LL|LLL|BER|TEMP> <enc> <.|!|?|*>`
/// (`.` bare/mandatory, `!` mandatory tagged, `?` optional, `*` repeated).
pub fn parse_table(src: &str) -> Table {
    let mut t = Table::default();
    let mut cur: Option<TypeDef> = None;
    for raw in src.lines() {
        let line = raw.split('#').next().unwrap().trim();
        if line.is_empty() {
            continue;
        }
        let w: Vec<&str> = line.split_whitespace().collect();
        if w[0] == "type" {
            if let Some(c) = cur.take() {
                t.order.push(c.key.clone());
                t.types.insert(c.key.clone(), c);
            }
            let key = w[1].to_string();
            let mut debug_name = key.rsplit("::").next().unwrap().to_string();
            let mut ctrl = None;
            for x in &w[2..] {
                if let Some(d) = x.strip_prefix("debug=") {
                    debug_name = d.to_string();
                } else if let Some(c) = x.strip_prefix("ctrl=") {
                    let v = u16::from_str_radix(c, 16).unwrap();
                    ctrl = Some(((v >> 8) as u8, v as u8));
                } else {
                    panic!("bad type line: {line}");
                }
            }
            cur = Some(TypeDef { key, debug_name, ctrl, fields: vec![] });
        } else {
            assert!(w.len() == 5, "bad field line: {line}");
            let wrap = match w[4] {
                "." | "!" => Wrap::Bare,
                "?" => Wrap::Opt,
                "*" => Wrap::Vec,
                _ => panic!("bad wrap in: {line}"),
            };
            cur.as_mut().expect("field before type").fields.push(FieldDef {
                name: w[0].to_string(),
                tag: parse_tag(w[1]),
                len: parse_len(w[2]),
                enc: parse_enc(w[3]),
                wrap,
            });
        }
    }
    if let Some(c) = cur.take() {
        t.order.push(c.key.clone());
        t.types.insert(c.key.clone(), c);
    }
    // every nested reference must resolve
    for ty in t.types.values() {
        for f in &ty.fields {
            if let Enc::Nested(n) = &f.enc {
                assert!(t.types.contains_key(n), "type {} field {} refers to unknown type {n}", ty.key, f.name);
            }
        }
    }
    t
}

/// The layout of the 55 shipped types, written from the ZVT 13.11 / Feig cVEND
/// section references cited in the sources (DESIGN.md Appendix A). Data only.
pub const SHIPPED: &str = r#"
# ---- commands (zvt::packets) ----
type SetTimeAndDate ctrl=0401
  date BAA F3 bcd !
  time B0C F3 bcd !

type StatusInformation ctrl=040F
  amount B04 F6 bcd ?
  trace_number B0B F3 bcd ?
  time B0C F3 bcd ?
  date B0D F2 bcd ?
  expiry_date B0E F2 bcd ?
  card_sequence_number B17 F2 bcd ?
  card_type B19 - u8 ?
  card_number B22 LL bcd ?
  track_2_data B23 LL hex ?
  result_code B27 F1 u8 ?
  terminal_id B29 F4 bcd ?
  vu_number B2A F15 txt ?
  aid_authorization_attribute B3B F8 txt ?
  additional_text B3C LLL txt ?
  single_amounts B60 LLL SingleAmounts ?
  receipt_no B87 F2 bcd ?
  currency B49 F2 bcd ?
  zvt_card_type B8A - u8 ?
  card_name B8B LL txt ?
  zvt_card_type_id B8C - u8 ?
  tlv B06 BER tlv::StatusInformation ?

type IntermediateStatusInformation ctrl=04FF
  status pos - u8 .
  timeout pos - bcd8 ?

type StatusEnquiry ctrl=0501
  password pos F3 bcd ?
  service_byte B03 - u8 ?
  tlv B06 BER tlv::StatusEnquiry ?

type Registration ctrl=0600
  password pos F3 bcd .
  config_byte pos - u8 .
  currency pos F2 bcd ?
  tlv B06 BER tlv::Registration ?

type Authorization ctrl=0601
  amount B04 F6 bcd ?
  currency B49 F2 bcd ?
  payment_type B19 - u8 ?
  expiry_date B0E F2 bcd ?
  card_number B22 LL bcd ?
  track_2_data B23 LL hex ?
  timeout B01 - u8 ?
  maximum_no_of_status_info B02 - u8 ?
  pump_no B05 - u8 ?
  additional_text B3C LLL txt ?
  zvt_card_type B8A - u8 ?
  tlv B06 BER AuthData ?

type CompletionData ctrl=060F
  result_code B27 - u8 ?
  status_byte B19 - u8 ?
  terminal_id B29 F4 bcd ?
  currency B49 F2 bcd ?

type ReceiptPrintoutCompletion ctrl=060F
  sw_version pos LLL utf8 .
  terminal_status_code pos - u8 .
  tlv B06 BER tlv::ReceiptPrintoutCompletion ?

type ResetTerminal ctrl=0618

type PrintSystemConfiguration ctrl=061A

type SetTerminalId ctrl=061B
  password pos F3 bcd .
  terminal_id B29 F4 bcd ?

type Abort ctrl=061E
  error pos - u8 .

type ReservationAbort ctrl=061E
  error pos - u8 .
  currency pos F2 bcd ?
  tlv B06 BER tlv::ReservationAbort ?

type PartialReversalAbort ctrl=061E
  error pos - u8 .
  receipt_no B87 F2 rcpt ?

type Reservation ctrl=0622
  amount B04 F6 bcd ?
  currency B49 F2 bcd ?
  payment_type B19 - u8 ?
  expiry_date B0E F2 bcd ?
  card_number B22 LL bcd ?
  track_2_data B23 LL hex ?
  timeout B01 - u8 ?
  maximum_no_of_status_info B02 - u8 ?
  pump_no B05 - u8 ?
  trace_number B0B F3 bcd ?
  aid_authorization_attribute B3B F8 txt ?
  additional_text B3C LLL txt ?
  zvt_card_type B8A - u8 ?
  tlv B06 BER PreAuthData ?

type PartialReversal ctrl=0623
  receipt_no B87 F2 rcpt ?
  amount B04 F6 bcd ?
  payment_type B19 - u8 ?
  currency B49 F2 bcd ?
  tlv B06 BER PreAuthData ?

type PreAuthReversal ctrl=0625
  payment_type B19 - u8 ?
  currency B49 F2 bcd ?
  receipt_no B87 F2 bcd ?

type EndOfDay ctrl=0650
  password pos F3 bcd .

type Diagnosis ctrl=0670
  tlv B06 BER tlv::Diagnosis ?

type Initialization ctrl=0693
  password pos F3 bcd .

type ReadCard ctrl=06C0
  timeout_sec pos - u8 .
  card_type B19 - u8 ?
  dialog_control BFC - u8 ?
  tlv B06 BER tlv::ReadCard ?

type PrintLine ctrl=06D1
  attribute pos - u8 .
  text pos - txt .

type PrintTextBlock ctrl=06D3
  tlv B06 BER tlv::PrintTextBlock ?

type SelectLanguage ctrl=0830
  language pos - u8 .

type Ack ctrl=8000

# ---- commands (zvt::feig::packets) ----
type feig::RequestForData debug=RequestForData ctrl=040C
  tlv B06 BER feig::tlv::WriteData ?

type feig::CVendFunctionsEnhancedSystemInformationCompletion debug=CVendFunctionsEnhancedSystemInformationCompletion ctrl=060F
  device_id pos F8 txt .
  sw_version pos F17 txt .
  terminal_id pos F8 txt .
  temperature pos TEMP txt .

type feig::WriteFile debug=WriteFile ctrl=0814
  password pos F3 bcd .
  tlv B06 BER feig::tlv::WriteFile ?

type feig::ChangeConfiguration debug=ChangeConfiguration ctrl=0813
  tlv B06 BER feig::tlv::ChangeConfiguration !

type feig::CVendFunctions debug=CVendFunctions ctrl=0FA1
  password pos F3 bcd ?
  instr pos - be16 .

type feig::WriteData debug=WriteData ctrl=8000
  tlv B06 BER feig::tlv::WriteData ?

# ---- containers (zvt::packets) ----
type NumAndTotal
  num pos - u8 .
  total pos F6 bcd .

type SingleAmounts
  receipt_no_start pos F2 bcd .
  receipt_no_end pos F2 bcd .
  girocard pos - NumAndTotal .
  jcb pos - NumAndTotal .
  eurocard pos - NumAndTotal .
  amex pos - NumAndTotal .
  visa pos - NumAndTotal .
  diners pos - NumAndTotal .
  others pos - NumAndTotal .

# ---- containers (zvt::packets::tlv) ----
type Subs
  card_type T41 BER hex ?
  application_id T43 BER hex ?

type SubsOnCard
  subs T60 BER Subs *

type tlv::StatusInformation debug=StatusInformation
  uuid T4C BER hex ?
  maximum_pre_autorisation T1F0B BER bcd ?
  card_identification_item T1F14 BER hex ?
  ats T1F45 BER hex ?
  card_type T1F4C BER u8 ?
  sub_type T1F4D BER hex ?
  atqa T1F4F BER hex ?
  sak T1F50 BER u8 ?
  subs T60 BER Subs *
  subs_on_card T62 BER SubsOnCard ?

type tlv::StatusEnquiry debug=StatusEnquiry
  enable_extended_contactless_card_detection T1FF2 BER u8 ?

type DeviceInformation
  device_name T1F40 BER txt ?
  software_version T1F41 BER txt ?
  serial_number T1F42 BER bcd ?
  device_state T1F43 BER u8 ?

type tlv::ReceiptPrintoutCompletion debug=ReceiptPrintoutCompletion
  terminal_id T1F44 BER bcd ?
  device_information TE4 BER DeviceInformation ?
  date_time T34 BER dt ?

type tlv::ReservationAbort debug=ReservationAbort
  extended_error_code T1F16 BER bcd ?
  extended_error_text T1F17 BER txt ?

type Bmp60
  bmp_prefix T1F62 BER txt !
  bmp_data T1F63 BER txt !

type AuthData
  bmp_data TE9 BER Bmp60 ?

type PreAuthData
  bmp_data TE9 BER Bmp60 ?

type tlv::Diagnosis debug=Diagnosis
  diagnosis_type T1B BER u8 ?

type tlv::ReadCard debug=ReadCard
  card_reading_control T1F15 BER u8 ?
  card_type T1F60 BER u8 ?

type ZvtString
  line T07 BER txt !

type TextLines
  lines T07 BER txt *
  eol T09 BER u8 ?

type tlv::PrintTextBlock debug=PrintTextBlock
  receipt_type T1F07 BER u8 ?
  lines T25 BER TextLines ?

type tlv::Registration debug=Registration
  max_len_adpu T1A BER be16 ?

# ---- containers (zvt::feig::packets::tlv) ----
type feig::tlv::File debug=File
  file_id T1D BER u8 ?
  file_offset T1E BER be32 ?
  file_size T1F00 BER be32 ?
  payload T1C BER raw ?

type feig::tlv::WriteData debug=WriteData
  file T2D BER feig::tlv::File ?

type feig::tlv::WriteFile debug=WriteFile
  files T2D BER feig::tlv::File *

type feig::tlv::HostConfigurationData debug=HostConfigurationData
  ip pos - be32 .
  port pos - be16 .
  config_byte pos - be8 .

type feig::tlv::SystemInformation debug=SystemInformation
  password TFF40 BER bcd !
  host_configuration_data TFF41 BER feig::tlv::HostConfigurationData ?

type feig::tlv::ChangeConfiguration debug=ChangeConfiguration
  system_information TE4 BER feig::tlv::SystemInformation !
"#;

pub fn shipped() -> Table {
    shipped_static().clone()
}

/// The shipped table, parsed once per process.
pub fn shipped_static() -> &'static Table {
    static T: std::sync::OnceLock<Table> = std::sync::OnceLock::new();
    T.get_or_init(|| parse_table(SHIPPED))
}
