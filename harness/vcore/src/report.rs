//! Accumulators, evidence files, replay files, known findings and exit codes.
use serde_json::{json, Map, Value};
use std::collections::{BTreeMap, HashSet};
use std::hash::{Hash, Hasher};
use std::time::Instant;

pub const EXIT_OK: i32 = 0;
pub const EXIT_VIOLATION: i32 = 1;
pub const EXIT_MACHINERY: i32 = 2;

pub fn h64<T: Hash + ?Sized>(t: &T) -> u64 {
    let mut h = std::collections::hash_map::DefaultHasher::new();
    t.hash(&mut h);
    h.finish()
}

pub fn hex(b: &[u8]) -> String {
    let mut s = String::with_capacity(b.len() * 2);
    for x in b {
        s.push_str(&format!("{:02x}", x));
    }
    s
}

pub fn unhex(s: &str) -> Vec<u8> {
    let s: Vec<u8> = s.bytes().filter(|c| !c.is_ascii_whitespace()).collect();
    s.chunks(2)
        .map(|c| u8::from_str_radix(std::str::from_utf8(c).unwrap(), 16).unwrap())
        .collect()
}

/// Short hex rendering for traces (long inputs are elided in the middle).
pub fn hex_short(b: &[u8]) -> String {
    if b.len() <= 96 {
        hex(b)
    } else {
        format!("{}..({} bytes)..{}", hex(&b[..40]), b.len(), hex(&b[b.len() - 24..]))
    }
}

#[derive(Clone, Debug)]
pub struct Violation {
    /// Canonical identification of the failing case (harness + case), used for
    /// known-finding matching and replay.
    pub key: String,
    /// Human readable trace: inputs, bytes, expectation, observation.
    pub detail: String,
    /// Everything needed to re-run this single case.
    pub replay: Value,
    /// Sort key: fewest deviations / simplest first.
    pub rank: u64,
}

/// Mergeable per-thread accumulator.
#[derive(Default)]
pub struct Acc {
    pub counters: BTreeMap<String, u64>,
    pub maxima: BTreeMap<String, u64>,
    pub sets: BTreeMap<String, HashSet<u64>>,
    pub violations: Vec<Violation>,
    pub violations_total: u64,
    pub samples: Vec<Value>,
    pub notes: Vec<String>,
}

pub const MAX_KEPT_VIOLATIONS: usize = 64;
pub const MAX_SAMPLES: usize = 8;

impl Acc {
    pub fn new() -> Self {
        Self::default()
    }
    #[inline]
    pub fn count(&mut self, name: &str, n: u64) {
        if let Some(c) = self.counters.get_mut(name) {
            *c += n;
        } else {
            self.counters.insert(name.to_string(), n);
        }
    }
    #[inline]
    pub fn max(&mut self, name: &str, v: u64) {
        if let Some(e) = self.maxima.get_mut(name) {
            if v > *e {
                *e = v;
            }
        } else {
            self.maxima.insert(name.to_string(), v);
        }
    }
    #[inline]
    pub fn set(&mut self, name: &str, h: u64) {
        if let Some(s) = self.sets.get_mut(name) {
            s.insert(h);
        } else {
            let mut s = HashSet::new();
            s.insert(h);
            self.sets.insert(name.to_string(), s);
        }
    }
    pub fn witness(&mut self, name: &str) {
        self.count(&format!("witness:{name}"), 1);
    }
    pub fn sample(&mut self, v: Value) {
        if self.samples.len() < MAX_SAMPLES {
            self.samples.push(v);
        }
    }
    pub fn violation(&mut self, v: Violation) {
        self.violations_total += 1;
        if self.violations.len() < MAX_KEPT_VIOLATIONS {
            self.violations.push(v);
        } else {
            // keep the lowest ranks
            if let Some((i, worst)) = self
                .violations
                .iter()
                .enumerate()
                .max_by_key(|(_, x)| x.rank)
                .map(|(i, x)| (i, x.rank))
            {
                if v.rank < worst {
                    self.violations[i] = v;
                }
            }
        }
    }
    pub fn get(&self, name: &str) -> u64 {
        *self.counters.get(name).unwrap_or(&0)
    }
    pub fn set_len(&self, name: &str) -> u64 {
        self.sets.get(name).map(|s| s.len() as u64).unwrap_or(0)
    }
    pub fn merge(&mut self, o: Acc) {
        for (k, v) in o.counters {
            *self.counters.entry(k).or_insert(0) += v;
        }
        for (k, v) in o.maxima {
            let e = self.maxima.entry(k).or_insert(0);
            if v > *e {
                *e = v;
            }
        }
        for (k, v) in o.sets {
            self.sets.entry(k).or_default().extend(v);
        }
        self.violations_total += o.violations_total - o.violations.len() as u64;
        for v in o.violations {
            self.violation(v);
        }
        for s in o.samples {
            self.sample(s);
        }
        self.notes.extend(o.notes);
    }
}

pub struct RunInfo {
    pub property: String,
    pub tier: String,
    pub seed: u64,
    pub start: Instant,
    pub verif_dir: String,
    pub replay_only: Option<Value>,
}

impl RunInfo {
    pub fn thorough(&self) -> bool {
        self.tier == "thorough"
    }
}

/// What a harness hands back for the evidence file.
pub struct Summary {
    pub acc: Acc,
    /// name of the counter holding the number of executions / cases
    pub evaluations_counter: String,
    /// name of the set (or counter) holding distinct states
    pub states: u64,
    pub transitions: u64,
    pub traces_validated: u64,
    pub distinct_nontrivial: u64,
    pub rule: String,
    pub exhaustive: bool,
    pub required_witnesses: Vec<String>,
    pub assumptions: Vec<String>,
    pub bounds: Value,
    pub caps_hit: Vec<String>,
}

#[derive(Clone, Debug)]
pub struct KnownFinding {
    pub status: String,
    pub property: String,
    pub key: String,
    pub what: String,
}

pub fn load_known_findings(verif_dir: &str) -> Vec<KnownFinding> {
    let p = format!("{verif_dir}/known_findings.json");
    let Ok(txt) = std::fs::read_to_string(&p) else {
        return vec![];
    };
    let v: Value = serde_json::from_str(&txt).unwrap_or_else(|e| {
        eprintln!("MACHINERY: cannot parse {p}: {e}");
        std::process::exit(EXIT_MACHINERY)
    });
    let mut out = vec![];
    for r in v["findings"].as_array().cloned().unwrap_or_default() {
        out.push(KnownFinding {
            status: r["status"].as_str().unwrap_or("").to_string(),
            property: r["property"].as_str().unwrap_or("").to_string(),
            key: r["key"].as_str().unwrap_or("").to_string(),
            what: r["what"].as_str().unwrap_or("").to_string(),
        });
    }
    out
}

/// A known record matches a violation key if it is equal to it or is a prefix
/// of it ending at a '/' boundary (a record names a call site, the violation
/// key may add the concrete input).
fn key_matches(record: &str, key: &str) -> bool {
    key == record || (key.starts_with(record) && key[record.len()..].starts_with('/'))
}

pub fn finish(run: &RunInfo, mut s: Summary) -> i32 {
    let wall = run.start.elapsed().as_secs_f64();
    let known = load_known_findings(&run.verif_dir);
    let mut exit = EXIT_OK;

    // replay mode: report whether the recorded case still fails.
    if let Some(rep) = &run.replay_only {
        let want = rep["key"].as_str().unwrap_or("");
        let hit = s.acc.violations.iter().find(|v| v.key == want);
        match hit {
            Some(v) => {
                println!("REPLAY: violation reproduced\n{}", v.detail);
                println!("VIOLATION property={} replay={}", run.property, rep["__path"].as_str().unwrap_or("?"));
                return EXIT_VIOLATION;
            }
            None => {
                println!("REPLAY: case {want} no longer violates property {}", run.property);
                return EXIT_OK;
            }
        }
    }

    // Vacuity: every required witness must have been reached.
    let mut missing = vec![];
    for w in &s.required_witnesses {
        if s.acc.get(&format!("witness:{w}")) == 0 {
            missing.push(w.clone());
        }
    }

    s.acc.violations.sort_by(|a, b| (a.rank, &a.key).cmp(&(b.rank, &b.key)));
    let mut printed_known: HashSet<String> = HashSet::new();
    let mut real: Vec<&Violation> = vec![];
    for v in &s.acc.violations {
        if let Some(k) = known
            .iter()
            .find(|k| k.status == "known" && k.property == run.property && key_matches(&k.key, &v.key))
        {
            if printed_known.insert(k.key.clone()) {
                println!("KNOWN-FINDING: property={} {} [{}]", run.property, k.what, k.key);
            }
        } else {
            real.push(v);
        }
    }
    let mut reported = 0;
    let mut seen_keys = HashSet::new();
    for v in &real {
        if !seen_keys.insert(v.key.clone()) {
            continue;
        }
        if reported >= 10 {
            break;
        }
        reported += 1;
        let _ = std::fs::create_dir_all(format!("{}/replays", run.verif_dir));
        let path = format!("{}/replays/{}-{:016x}.json", run.verif_dir, run.property, h64(&v.key));
        let mut body = Map::new();
        body.insert("property".into(), json!(run.property));
        body.insert("tier".into(), json!(run.tier));
        body.insert("seed".into(), json!(run.seed));
        body.insert("key".into(), json!(v.key));
        body.insert("case".into(), v.replay.clone());
        body.insert("trace".into(), json!(v.detail));
        let _ = std::fs::write(&path, serde_json::to_string_pretty(&Value::Object(body)).unwrap());
        let shown: String = if v.detail.chars().count() > 1600 { v.detail.chars().take(1600).collect::<String>() + " ...(full trace in the replay file)" } else { v.detail.clone() };
        let key_shown: String = if v.key.chars().count() > 200 { v.key.chars().take(200).collect::<String>() + "..." } else { v.key.clone() };
        println!("--- violation {} ---\n{}", key_shown, shown);
        println!("VIOLATION property={} replay={}", run.property, path);
        exit = EXIT_VIOLATION;
    }

    let witnesses: BTreeMap<String, u64> = s
        .acc
        .counters
        .iter()
        .filter(|(k, _)| k.starts_with("witness:"))
        .map(|(k, v)| (k["witness:".len()..].to_string(), *v))
        .collect();
    let counters: BTreeMap<String, u64> = s
        .acc
        .counters
        .iter()
        .filter(|(k, _)| !k.starts_with("witness:"))
        .map(|(k, v)| (k.clone(), *v))
        .collect();
    let sets: BTreeMap<String, u64> = s.acc.sets.iter().map(|(k, v)| (k.clone(), v.len() as u64)).collect();
    let evaluations = s.acc.get(&s.evaluations_counter);
    if s.acc.samples.is_empty() {
        s.acc.samples.push(json!("(no sample recorded)"));
    }
    let coverage = json!({
        "states": s.states.max(1),
        "transitions": s.transitions.max(1),
        "traces_validated_against_impl": s.traces_validated,
        "samples": s.acc.samples,
        "evaluations": evaluations.max(1),
        "distinct_nontrivial": s.distinct_nontrivial,
        "rule": s.rule,
        "exhaustive": s.exhaustive && s.caps_hit.is_empty(),
        "bounds": s.bounds,
        "caps_hit": s.caps_hit,
        "witnesses": witnesses,
        "witnesses_missing": missing,
        "counters": counters,
        "distinct_sets": sets,
        "maxima": s.acc.maxima,
        "violations_found_total": s.acc.violations_total,
        "known_findings_matched": printed_known.len(),
        "explanation": "bounded-exhaustive exploration of the real code against a reference model; see rule/bounds",
    });
    let ev = json!({
        "property_id": run.property,
        "tier": run.tier,
        "seed": run.seed,
        "level": "model_checking",
        "coverage": coverage,
        "assumptions": s.assumptions,
        "wall_s": wall,
        "violations": real.len(),
    });
    let _ = std::fs::create_dir_all(format!("{}/evidence", run.verif_dir));
    let path = format!("{}/evidence/{}.json", run.verif_dir, run.property);
    if let Err(e) = std::fs::write(&path, serde_json::to_string_pretty(&ev).unwrap()) {
        eprintln!("MACHINERY: cannot write {path}: {e}");
        return EXIT_MACHINERY;
    }
    if exit == EXIT_OK && !missing.is_empty() {
        eprintln!("MACHINERY: vacuous run, witnesses never reached: {:?}", missing);
        return EXIT_MACHINERY;
    }
    println!(
        "{} {}: evaluations={} states={} transitions={} distinct={} violations={} wall={:.1}s{}",
        run.property,
        run.tier,
        evaluations,
        s.states,
        s.transitions,
        s.distinct_nontrivial,
        real.len(),
        wall,
        if exit == EXIT_OK { " -> HOLDS on everything explored" } else { "" }
    );
    exit
}

/// Run `f(i, &mut Acc)` for every i in 0..n on `threads` worker threads and
/// merge the accumulators. A panic inside `f` that is not caught by the harness
/// itself is a machinery error.
pub fn par_for<F>(n: usize, f: F) -> Acc
where
    F: Fn(usize, &mut Acc) + Sync,
{
    use std::sync::atomic::{AtomicUsize, Ordering};
    let threads = std::thread::available_parallelism().map(|x| x.get()).unwrap_or(4).min(16).min(n.max(1));
    let next = AtomicUsize::new(0);
    let mut total = Acc::new();
    let results: Vec<Acc> = std::thread::scope(|sc| {
        let mut hs = vec![];
        for _ in 0..threads {
            hs.push(
                std::thread::Builder::new()
                    .stack_size(256 << 20)
                    .spawn_scoped(sc, || {
                        let mut acc = Acc::new();
                        loop {
                            let i = next.fetch_add(1, Ordering::Relaxed);
                            if i >= n {
                                break;
                            }
                            f(i, &mut acc);
                        }
                        acc
                    })
                    .unwrap(),
            );
        }
        hs.into_iter()
            .map(|h| match h.join() {
                Ok(a) => a,
                Err(e) => {
                    let msg = e
                        .downcast_ref::<String>()
                        .cloned()
                        .or_else(|| e.downcast_ref::<&str>().map(|s| s.to_string()))
                        .unwrap_or_default();
                    eprintln!("MACHINERY: worker thread panicked outside a guarded call: {msg}");
                    std::process::exit(EXIT_MACHINERY)
                }
            })
            .collect()
    });
    for a in results {
        total.merge(a);
    }
    total
}

/// Run a closure catching panics; returns Err(message) on panic.
pub fn guarded<T>(f: impl FnOnce() -> T) -> Result<T, String> {
    match std::panic::catch_unwind(std::panic::AssertUnwindSafe(f)) {
        Ok(v) => Ok(v),
        Err(e) => Err(e
            .downcast_ref::<String>()
            .cloned()
            .or_else(|| e.downcast_ref::<&str>().map(|s| s.to_string()))
            .unwrap_or_else(|| "panic (non-string payload)".to_string())),
    }
}

/// Silence the default panic hook (panics of the code under test are caught
/// and reported as violations; the default hook would flood stderr).
pub fn quiet_panics() {
    std::panic::set_hook(Box::new(|_| {}));
}

// ---------------------------------------------------------------- watchdog

use std::sync::atomic::{AtomicU64, Ordering as AO};
use std::sync::Mutex;

const SLOTS: usize = 64;
static WATCH_START: [AtomicU64; SLOTS] = [const { AtomicU64::new(0) }; SLOTS];
static WATCH_DESC: [Mutex<String>; SLOTS] = [const { Mutex::new(String::new()) }; SLOTS];
static NEXT_SLOT: AtomicU64 = AtomicU64::new(0);
thread_local! {
    static MY_SLOT: usize = (NEXT_SLOT.fetch_add(1, AO::Relaxed) as usize) % SLOTS;
}

fn now_ms() -> u64 {
    use std::time::{SystemTime, UNIX_EPOCH};
    SystemTime::now().duration_since(UNIX_EPOCH).map(|d| d.as_millis() as u64).unwrap_or(1)
}

/// Announce the case the calling thread is about to run (cheap: one atomic store; the
/// description is only materialised every `every`-th call through `desc`).
pub fn watch_enter(desc: impl FnOnce() -> String) {
    MY_SLOT.with(|s| {
        let d = desc();
        if let Ok(mut v) = WATCH_DESC[*s].lock() {
            *v = d;
        }
        WATCH_START[*s].store(now_ms(), AO::Relaxed);
    });
}

/// Sets the description of the case the calling thread works on without arming the timer
/// (for harnesses whose poll loop arms it per poll).
pub fn watch_describe(desc: impl FnOnce() -> String) {
    MY_SLOT.with(|s| {
        let d = desc();
        if let Ok(mut v) = WATCH_DESC[*s].lock() {
            *v = d;
        }
    });
}

/// Re-arm the timer of the running case (one atomic store, called before every guarded call).
#[inline]
pub fn watch_tick() {
    MY_SLOT.with(|s| WATCH_START[*s].store(now_ms(), AO::Relaxed));
}

pub fn watch_exit() {
    MY_SLOT.with(|s| WATCH_START[*s].store(0, AO::Relaxed));
}

/// Starts the monitor thread: a single guarded call that runs longer than `max_secs` or a
/// process that holds more than `max_bytes` is reported as a violation (with the description of
/// the running case) and the process exits with status 1 - a hung check would be no verdict.
pub fn start_watchdog(property: &str, verif_dir: &str, max_secs: u64, max_bytes: isize) {
    start_watchdog_mode(property, verif_dir, max_secs, max_bytes, true)
}

/// `hang_is_violation`: whether termination / bounded allocation is part of the property under
/// check. Otherwise a call that does not return is a machinery exit (no verdict), never silence.
pub fn start_watchdog_mode(property: &str, verif_dir: &str, max_secs: u64, max_bytes: isize, hang_is_violation: bool) {
    static STARTED: std::sync::atomic::AtomicBool = std::sync::atomic::AtomicBool::new(false);
    if STARTED.swap(true, AO::SeqCst) {
        return;
    }
    let property = property.to_string();
    let verif_dir = verif_dir.to_string();
    std::thread::spawn(move || loop {
        std::thread::sleep(std::time::Duration::from_millis(250));
        let now = now_ms();
        let live = crate::alloc::process_live();
        let mut culprit: Option<(usize, &str)> = None;
        for (i, st) in WATCH_START.iter().enumerate() {
            let t = st.load(AO::Relaxed);
            if t != 0 && now.saturating_sub(t) > max_secs * 1000 {
                culprit = Some((i, "no progress (loop watchdog)"));
                break;
            }
        }
        if culprit.is_none() && live > max_bytes {
            // blame the longest running case
            let mut best: Option<(usize, u64)> = None;
            for (i, st) in WATCH_START.iter().enumerate() {
                let t = st.load(AO::Relaxed);
                if t != 0 && best.map(|b| t < b.1).unwrap_or(true) {
                    best = Some((i, t));
                }
            }
            if let Some((i, _)) = best {
                culprit = Some((i, "allocation beyond the process cap (memory watchdog)"));
            }
        }
        if let Some((i, why)) = culprit {
            let desc = WATCH_DESC[i].lock().map(|v| v.clone()).unwrap_or_default();
            if !hang_is_violation {
                eprintln!("MACHINERY: {why}: a call into the code under test did not return within {max_secs} s of wall-clock time (no verdict for {property}; termination is the subject of C02/C04/C05/C06/C10/C11)\ncase: {desc}");
                std::process::exit(EXIT_MACHINERY);
            }
            let key = format!("watchdog/{desc}");
            let _ = std::fs::create_dir_all(format!("{verif_dir}/replays"));
            let path = format!("{verif_dir}/replays/{property}-{:016x}.json", h64(&key));
            let body = json!({"property": property, "tier": "quick", "seed": 0, "key": key, "case": {"key": key}, "trace": format!("{why}: {desc}")});
            let _ = std::fs::write(&path, serde_json::to_string_pretty(&body).unwrap());
            println!("--- violation {key} ---\n{why}: the call did not return / kept allocating\ncase: {desc}");
            println!("VIOLATION property={property} replay={path}");
            std::process::exit(EXIT_VIOLATION);
        }
    });
}
