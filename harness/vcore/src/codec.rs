//! Reference codec: an interpreter of the layout table over a dynamic value
//! tree. It implements the wire *format* (packed BCD, LLVAR/LLLVAR digits,
//! shortest-form BER lengths, APDU framing, one/two byte tags, CP437, greedy
//! containers, positional optionals, repeated tagged groups, the date/time
//! container) and shares no code with zvt_builder / zvt_derive.
use crate::layout::*;

#[derive(Clone, Debug, PartialEq, Eq, Hash, PartialOrd, Ord)]
pub enum Val {
    Int(u64),
    Text(String),
    Hex(String),
    Bytes(Vec<u8>),
    /// year, month, day, hour, minute, second
    Dt(i32, u32, u32, u32, u32, u32),
    None,
    Some(Box<Val>),
    List(Vec<Val>),
    /// field values in table order
    Struct(Vec<Val>),
}

impl Val {
    pub fn some(v: Val) -> Val {
        Val::Some(Box::new(v))
    }
    pub fn fields(&self) -> &Vec<Val> {
        match self {
            Val::Struct(f) => f,
            _ => panic!("not a struct value: {self:?}"),
        }
    }
    pub fn fields_mut(&mut self) -> &mut Vec<Val> {
        match self {
            Val::Struct(f) => f,
            _ => panic!("not a struct value"),
        }
    }
    pub fn int(&self) -> u64 {
        match self {
            Val::Int(i) => *i,
            _ => panic!("not an int: {self:?}"),
        }
    }
    /// unwrap Some(..)
    pub fn inner(&self) -> Option<&Val> {
        match self {
            Val::Some(b) => Some(b),
            Val::None => None,
            _ => panic!("not an option: {self:?}"),
        }
    }
    pub fn field<'a>(&'a self, ty: &TypeDef, name: &str) -> &'a Val {
        let i = ty.fields.iter().position(|f| f.name == name).unwrap_or_else(|| panic!("no field {name} in {}", ty.key));
        &self.fields()[i]
    }
}

#[derive(Clone, Debug, PartialEq, Eq)]
pub enum RefErr {
    Incomplete,
    Duplicate(u16),
    Missing(Vec<u16>),
    Unrepresentable(String),
    Malformed(String),
}

// ---------------------------------------------------------------- CP437

const CP437_HIGH: [char; 128] = [
    'Ç', 'ü', 'é', 'â', 'ä', 'à', 'å', 'ç', 'ê', 'ë', 'è', 'ï', 'î', 'ì', 'Ä', 'Å', //
    'É', 'æ', 'Æ', 'ô', 'ö', 'ò', 'û', 'ù', 'ÿ', 'Ö', 'Ü', '¢', '£', '¥', '₧', 'ƒ', //
    'á', 'í', 'ó', 'ú', 'ñ', 'Ñ', 'ª', 'º', '¿', '⌐', '¬', '½', '¼', '¡', '«', '»', //
    '░', '▒', '▓', '│', '┤', '╡', '╢', '╖', '╕', '╣', '║', '╗', '╝', '╜', '╛', '┐', //
    '└', '┴', '┬', '├', '─', '┼', '╞', '╟', '╚', '╔', '╩', '╦', '╠', '═', '╬', '╧', //
    '╨', '╤', '╥', '╙', '╘', '╒', '╓', '╫', '╪', '┘', '┌', '█', '▄', '▌', '▐', '▀', //
    'α', 'ß', 'Γ', 'π', 'Σ', 'σ', 'µ', 'τ', 'Φ', 'Θ', 'Ω', 'δ', '∞', 'φ', 'ε', '∩', //
    '≡', '±', '≥', '≤', '⌠', '⌡', '÷', '≈', '°', '∙', '·', '√', 'ⁿ', '²', '■', '\u{a0}',
];

pub fn cp437_char(b: u8) -> char {
    if b < 0x80 {
        b as char
    } else {
        CP437_HIGH[(b - 0x80) as usize]
    }
}

pub fn cp437_decode(b: &[u8]) -> String {
    b.iter().map(|x| cp437_char(*x)).collect()
}

pub fn cp437_encode(s: &str) -> Option<Vec<u8>> {
    let mut out = Vec::with_capacity(s.len());
    for c in s.chars() {
        if (c as u32) < 0x80 {
            out.push(c as u8);
        } else if let Some(i) = CP437_HIGH.iter().position(|h| *h == c) {
            out.push(0x80 + i as u8);
        } else {
            return None;
        }
    }
    Some(out)
}

// ---------------------------------------------------------------- primitives

/// minimal packed BCD, most significant digit first, no leading zero byte; 0 => empty
pub fn bcd_min(mut v: u64) -> Vec<u8> {
    let mut digits = vec![];
    while v > 0 {
        digits.push((v % 10) as u8);
        v /= 10;
    }
    if digits.len() % 2 == 1 {
        digits.push(0);
    }
    digits.reverse();
    digits.chunks(2).map(|c| (c[0] << 4) | c[1]).collect()
}

/// BCD digits to number; a low nibble F ends an odd digit string; overflow of
/// `bits` is an error.
pub fn bcd_parse(b: &[u8], bits: u32) -> Result<u64, RefErr> {
    let max: u128 = if bits >= 64 { u64::MAX as u128 } else { (1u128 << bits) - 1 };
    let mut v: u128 = 0;
    for x in b {
        let hi = (x >> 4) as u128;
        let lo = (x & 0xf) as u128;
        // Nibbles A-E are outside the format. They are read arithmetically (like a digit) rather
        // than rejected, so that an absent positional optional followed by *any* bytes of its
        // width counts as "can be read as that field" and is excluded from the canonical domain
        // (DESIGN.md 5.1) whatever the bytes are.
        if lo == 0xf {
            v = v * 10 + hi;
        } else {
            v = v * 100 + hi * 10 + lo;
        }
        if v > max {
            return Err(RefErr::Unrepresentable("BCD digits exceed the integer".into()));
        }
    }
    Ok(v as u64)
}

pub fn tag_bytes(tag: u16) -> Vec<u8> {
    let hi = (tag >> 8) as u8;
    if hi == 0x1f || hi == 0xff {
        vec![hi, tag as u8]
    } else {
        vec![tag as u8]
    }
}

/// Reads a BMP number / TLV tag: one byte, or two if the first is 1F or FF.
pub fn tag_parse(b: &[u8]) -> Option<(u16, usize)> {
    let first = *b.first()?;
    if first == 0x1f || first == 0xff {
        let second = *b.get(1)?;
        Some((((first as u16) << 8) | second as u16, 2))
    } else {
        Some((first as u16, 1))
    }
}

pub fn ber_len(n: usize) -> Result<Vec<u8>, RefErr> {
    Ok(match n {
        0..=127 => vec![n as u8],
        128..=255 => vec![0x81, n as u8],
        256..=65535 => vec![0x82, (n >> 8) as u8, n as u8],
        _ => return Err(RefErr::Unrepresentable(format!("BER length {n}"))),
    })
}

pub fn apdu_len(n: usize) -> Result<Vec<u8>, RefErr> {
    Ok(match n {
        0..=254 => vec![n as u8],
        255..=65535 => vec![0xff, n as u8, (n >> 8) as u8],
        _ => return Err(RefErr::Unrepresentable(format!("APDU length {n}"))),
    })
}

pub fn llvar(n: usize, digits: usize) -> Result<Vec<u8>, RefErr> {
    let max = 10usize.pow(digits as u32) - 1;
    if n > max {
        return Err(RefErr::Unrepresentable(format!("L{}VAR length {n}", digits)));
    }
    let s = format!("{:0width$}", n, width = digits);
    Ok(s.bytes().map(|c| 0xf0 | (c - b'0')).collect())
}

/// Parses a length prefix of the given style: (payload length, prefix size).
pub fn len_parse(len: &Len, b: &[u8]) -> Result<(usize, usize), RefErr> {
    match len {
        Len::None => Ok((b.len(), 0)),
        Len::Fixed(n) => {
            if b.len() < *n {
                Err(RefErr::Incomplete)
            } else {
                Ok((*n, 0))
            }
        }
        Len::Temp => {
            if b.len() < 3 {
                Err(RefErr::Incomplete)
            } else {
                Ok((b.len().min(4), 0))
            }
        }
        Len::LL | Len::LLL => {
            let d = if *len == Len::LL { 2 } else { 3 };
            if b.len() < d {
                return Err(RefErr::Incomplete);
            }
            let mut v = 0usize;
            for x in &b[..d] {
                v = v * 10 + (x & 0xf) as usize;
            }
            Ok((v, d))
        }
        Len::Ber => {
            let f = *b.first().ok_or(RefErr::Incomplete)?;
            match f {
                0..=127 => Ok((f as usize, 1)),
                0x81 => Ok((*b.get(1).ok_or(RefErr::Incomplete)? as usize, 2)),
                0x82 => {
                    if b.len() < 3 {
                        Err(RefErr::Incomplete)
                    } else {
                        Ok((((b[1] as usize) << 8) | b[2] as usize, 3))
                    }
                }
                _ => Err(RefErr::Malformed("unsupported BER length form".into())),
            }
        }
    }
}

// ---------------------------------------------------------------- encoder

pub struct Codec<'t> {
    pub table: &'t Table,
}

fn hex_to_bytes(s: &str) -> Option<Vec<u8>> {
    if s.len() % 2 != 0 {
        return None;
    }
    let b = s.as_bytes();
    let mut out = vec![];
    for c in b.chunks(2) {
        let h = (c[0] as char).to_digit(16)?;
        let l = (c[1] as char).to_digit(16)?;
        out.push((h * 16 + l) as u8);
    }
    Some(out)
}

fn bytes_to_hex(b: &[u8]) -> String {
    let mut s = String::new();
    for x in b {
        s.push_str(&format!("{:02x}", x));
    }
    s
}

impl<'t> Codec<'t> {
    pub fn new(table: &'t Table) -> Self {
        Codec { table }
    }

    /// payload bytes of a scalar/nested value under `enc` (no tag, no length)
    fn enc_payload(&self, f: &FieldDef, v: &Val) -> Result<Vec<u8>, RefErr> {
        Ok(match (&f.enc, v) {
            (Enc::Le(n), Val::Int(i)) => {
                if *n < 8 && *i >= 1u64 << (8 * n) {
                    return Err(RefErr::Unrepresentable("integer too wide".into()));
                }
                i.to_le_bytes()[..*n].to_vec()
            }
            (Enc::Be(n), Val::Int(i)) => {
                if *n < 8 && *i >= 1u64 << (8 * n) {
                    return Err(RefErr::Unrepresentable("integer too wide".into()));
                }
                i.to_be_bytes()[8 - *n..].to_vec()
            }
            (Enc::Bcd(bits), Val::Int(i)) => {
                if *bits < 64 && *i >= 1u64 << bits {
                    return Err(RefErr::Unrepresentable("integer too wide".into()));
                }
                bcd_min(*i)
            }
            (Enc::Rcpt, Val::Int(i)) => {
                if *i == 0xffff {
                    vec![0xff, 0xff]
                } else {
                    bcd_min(*i)
                }
            }
            (Enc::Txt, Val::Text(s)) => cp437_encode(s).ok_or_else(|| RefErr::Unrepresentable("not CP437".into()))?,
            (Enc::Utf8, Val::Text(s)) => s.as_bytes().to_vec(),
            (Enc::HexS, Val::Hex(s)) => hex_to_bytes(s).ok_or_else(|| RefErr::Unrepresentable("not hex".into()))?,
            (Enc::Raw, Val::Bytes(b)) => b.clone(),
            (Enc::Dt, Val::Dt(y, mo, d, h, mi, s)) => {
                if *y < 0 || *y > 9999 {
                    return Err(RefErr::Unrepresentable("year".into()));
                }
                let date = *y as u64 * 10000 + *mo as u64 * 100 + *d as u64;
                let time = *h as u64 * 10000 + *mi as u64 * 100 + *s as u64;
                let mut out = vec![0x1f, 0x0e, 4];
                out.extend(pad_left(bcd_min(date), 4)?);
                out.extend([0x1f, 0x0f, 3]);
                out.extend(pad_left(bcd_min(time), 3)?);
                out
            }
            (Enc::Nested(n), v @ Val::Struct(_)) => self.encode_struct(self.table.get(n), v)?,
            (e, v) => return Err(RefErr::Malformed(format!("value {v:?} does not fit encoding {e:?} of field {}", f.name))),
        })
    }

    /// one tagged/prefixed group for a present, unwrapped value
    fn enc_group(&self, f: &FieldDef, v: &Val) -> Result<Vec<u8>, RefErr> {
        let payload = self.enc_payload(f, v)?;
        // an empty binary payload is encoded as absence
        if f.enc == Enc::Raw && payload.is_empty() {
            return Ok(vec![]);
        }
        let mut out = vec![];
        if let Some(t) = f.tag {
            out.extend(tag_bytes(t));
        }
        match &f.len {
            Len::None | Len::Temp => out.extend(payload),
            Len::Fixed(n) => out.extend(pad_left(payload, *n)?),
            Len::LL => {
                out.extend(llvar(payload.len(), 2)?);
                out.extend(payload)
            }
            Len::LLL => {
                out.extend(llvar(payload.len(), 3)?);
                out.extend(payload)
            }
            Len::Ber => {
                out.extend(ber_len(payload.len())?);
                out.extend(payload)
            }
        }
        Ok(out)
    }

    pub fn encode_struct(&self, ty: &TypeDef, v: &Val) -> Result<Vec<u8>, RefErr> {
        let fields = v.fields();
        assert_eq!(fields.len(), ty.fields.len(), "value does not match type {}", ty.key);
        let mut out = vec![];
        for (f, fv) in ty.fields.iter().zip(fields) {
            match (&f.wrap, fv) {
                (Wrap::Bare, v) => out.extend(self.enc_group(f, v)?),
                (Wrap::Opt, Val::None) => {}
                (Wrap::Opt, Val::Some(v)) => out.extend(self.enc_group(f, v)?),
                (Wrap::Vec, Val::List(l)) => {
                    for v in l {
                        out.extend(self.enc_group(f, v)?)
                    }
                }
                (w, v) => return Err(RefErr::Malformed(format!("wrap {w:?} vs value {v:?}"))),
            }
        }
        Ok(out)
    }

    /// Full wire form: APDU (class, instr, length, body) for commands, plain body otherwise.
    pub fn encode(&self, ty: &TypeDef, v: &Val) -> Result<Vec<u8>, RefErr> {
        let body = self.encode_struct(ty, v)?;
        match ty.ctrl {
            None => Ok(body),
            Some((c, i)) => {
                let mut out = vec![c, i];
                out.extend(apdu_len(body.len())?);
                out.extend(body);
                Ok(out)
            }
        }
    }

    // ------------------------------------------------------------ decoder

    /// decodes the payload (already cut to its announced length where there is one); returns the
    /// value and the number of payload bytes consumed
    fn dec_payload(&self, f: &FieldDef, p: &[u8]) -> Result<(Val, usize), RefErr> {
        Ok(match &f.enc {
            Enc::Le(n) | Enc::Be(n) => {
                if p.len() < *n {
                    return Err(RefErr::Incomplete);
                }
                let mut v = 0u64;
                if matches!(f.enc, Enc::Le(_)) {
                    for (i, x) in p[..*n].iter().enumerate() {
                        v |= (*x as u64) << (8 * i);
                    }
                } else {
                    for x in &p[..*n] {
                        v = (v << 8) | *x as u64;
                    }
                }
                (Val::Int(v), *n)
            }
            Enc::Bcd(bits) => (Val::Int(bcd_parse(p, *bits)?), p.len()),
            Enc::Rcpt => {
                if p.len() < 2 {
                    return Err(RefErr::Incomplete);
                }
                if p[..2] == [0xff, 0xff] {
                    (Val::Int(0xffff), 2)
                } else {
                    (Val::Int(bcd_parse(&p[..2], 64)?), 2)
                }
            }
            Enc::Txt => {
                let s = cp437_decode(p);
                (Val::Text(s.trim_end_matches('\0').to_string()), p.len())
            }
            Enc::Utf8 => (Val::Text(String::from_utf8(p.to_vec()).map_err(|_| RefErr::Malformed("utf8".into()))?), p.len()),
            Enc::HexS => (Val::Hex(bytes_to_hex(p)), p.len()),
            Enc::Raw => (Val::Bytes(p.to_vec()), p.len()),
            Enc::Dt => {
                let mut pos = 0;
                let mut date = None;
                let mut time = None;
                while pos < p.len() {
                    let Some((t, tl)) = tag_parse(&p[pos..]) else { return Err(RefErr::Incomplete) };
                    if t != 0x1f0e && t != 0x1f0f {
                        break;
                    }
                    let (l, pl) = len_parse(&Len::Ber, &p[pos + tl..])?;
                    let start = pos + tl + pl;
                    if start + l > p.len() {
                        return Err(RefErr::Incomplete);
                    }
                    let n = bcd_parse(&p[start..start + l], 64)?;
                    if t == 0x1f0e {
                        if date.is_some() {
                            return Err(RefErr::Duplicate(t));
                        }
                        date = Some(n);
                    } else {
                        if time.is_some() {
                            return Err(RefErr::Duplicate(t));
                        }
                        time = Some(n);
                    }
                    pos = start + l;
                }
                let (Some(d), Some(t)) = (date, time) else { return Err(RefErr::Incomplete) };
                let (y, mo, da) = ((d / 10000) as i32, ((d % 10000) / 100) as u32, (d % 100) as u32);
                let (h, mi, s) = ((t / 10000) as u32, ((t % 10000) / 100) as u32, (t % 100) as u32);
                if !valid_date(y, mo, da) || h > 23 || mi > 59 || s > 59 || d > 99_991_231 {
                    return Err(RefErr::Malformed("calendar".into()));
                }
                (Val::Dt(y, mo, da, h, mi, s), pos)
            }
            Enc::Nested(n) => {
                let (v, used) = self.decode_struct(self.table.get(n), p)?;
                (v, used)
            }
        })
    }

    /// decodes one group `[tag] [len] payload` at the start of `b` (the tag, if any, has already
    /// been identified by the caller and is skipped here); returns value and bytes consumed
    fn dec_group(&self, f: &FieldDef, b: &[u8]) -> Result<(Val, usize), RefErr> {
        let mut pos = 0;
        if let Some(t) = f.tag {
            let (got, tl) = tag_parse(b).ok_or(RefErr::Incomplete)?;
            if got != t {
                return Err(RefErr::Malformed("wrong tag".into()));
            }
            pos += tl;
        }
        let (l, pl) = len_parse(&f.len, &b[pos..])?;
        pos += pl;
        if pos + l > b.len() {
            return Err(RefErr::Incomplete);
        }
        let (v, used) = self.dec_payload(f, &b[pos..pos + l])?;
        // a value that uses less than its container leaves the rest in the stream
        Ok((v, pos + used))
    }

    /// returns the struct value and the number of bytes consumed
    pub fn decode_struct(&self, ty: &TypeDef, b: &[u8]) -> Result<(Val, usize), RefErr> {
        let mut vals: Vec<Val> = ty
            .fields
            .iter()
            .map(|f| match f.wrap {
                Wrap::Bare => Val::None, // placeholder, must be filled
                Wrap::Opt => Val::None,
                Wrap::Vec => Val::List(vec![]),
            })
            .collect();
        let mut pos = 0;
        // positional fields first, in order
        for (i, f) in ty.fields.iter().enumerate() {
            if f.tag.is_some() {
                continue;
            }
            match f.wrap {
                Wrap::Bare => {
                    let (v, used) = self.dec_group(f, &b[pos..])?;
                    vals[i] = v;
                    pos += used;
                }
                Wrap::Opt => {
                    if let Ok((v, used)) = self.dec_group(f, &b[pos..]) {
                        vals[i] = Val::some(v);
                        pos += used;
                    }
                }
                Wrap::Vec => {
                    let mut l = vec![];
                    while let Ok((v, used)) = self.dec_group(f, &b[pos..]) {
                        if used == 0 {
                            break;
                        }
                        l.push(v);
                        pos += used;
                    }
                    vals[i] = Val::List(l);
                }
            }
        }
        // tagged fields in any order
        let mut seen: Vec<u16> = vec![];
        while pos < b.len() {
            let Some((t, _)) = tag_parse(&b[pos..]) else { break };
            let Some((i, f)) = ty.fields.iter().enumerate().find(|(_, f)| f.tag == Some(t)) else { break };
            if seen.contains(&t) {
                return Err(RefErr::Duplicate(t));
            }
            seen.push(t);
            match f.wrap {
                Wrap::Bare => {
                    let (v, used) = self.dec_group(f, &b[pos..])?;
                    vals[i] = v;
                    pos += used;
                }
                Wrap::Opt => {
                    let (v, used) = self.dec_group(f, &b[pos..])?;
                    vals[i] = Val::some(v);
                    pos += used;
                }
                Wrap::Vec => {
                    let mut l = vec![];
                    while pos < b.len() {
                        match tag_parse(&b[pos..]) {
                            Some((t2, _)) if t2 == t => {}
                            _ => break,
                        }
                        match self.dec_group(f, &b[pos..]) {
                            Ok((v, used)) => {
                                l.push(v);
                                pos += used;
                            }
                            Err(_) => break,
                        }
                    }
                    vals[i] = Val::List(l);
                }
            }
        }
        let mut missing: Vec<u16> = ty
            .fields
            .iter()
            .filter(|f| f.wrap == Wrap::Bare && f.tag.is_some() && !seen.contains(&f.tag.unwrap()))
            .map(|f| f.tag.unwrap())
            .collect();
        if !missing.is_empty() {
            missing.sort();
            return Err(RefErr::Missing(missing));
        }
        Ok((Val::Struct(vals), pos))
    }

    /// Full wire form; returns value and bytes consumed (APDU header + announced body).
    pub fn decode(&self, ty: &TypeDef, b: &[u8]) -> Result<(Val, usize), RefErr> {
        match ty.ctrl {
            None => self.decode_struct(ty, b),
            Some((c, i)) => {
                if b.len() < 3 {
                    return Err(RefErr::Incomplete);
                }
                if b[0] != c || b[1] != i {
                    return Err(RefErr::Malformed("control field".into()));
                }
                let (l, hl) = if b[2] == 0xff {
                    if b.len() < 5 {
                        return Err(RefErr::Incomplete);
                    }
                    ((b[3] as usize) | ((b[4] as usize) << 8), 5)
                } else {
                    (b[2] as usize, 3)
                };
                if hl + l > b.len() {
                    return Err(RefErr::Incomplete);
                }
                let (v, _used) = self.decode_struct(ty, &b[hl..hl + l])?;
                Ok((v, hl + l))
            }
        }
    }

    /// V is canonical iff it is a fixed point of the reference codec.
    pub fn canonical(&self, ty: &TypeDef, v: &Val) -> Option<Vec<u8>> {
        let bytes = self.encode(ty, v).ok()?;
        match self.decode(ty, &bytes) {
            Ok((back, used)) if used == bytes.len() && &back == v => {
                // for commands the body must be consumed completely by the struct as well
                if ty.ctrl.is_some() {
                    let hl = if bytes[2] == 0xff { 5 } else { 3 };
                    match self.decode_struct(ty, &bytes[hl..]) {
                        Ok((_, u)) if u == bytes.len() - hl => {}
                        _ => return None,
                    }
                }
                Some(bytes)
            }
            _ => None,
        }
    }

    // ------------------------------------------------------------ Debug rendering

    /// The string Rust's derived `Debug` prints for the real value that equals `v`.
    pub fn debug_string(&self, ty: &TypeDef, v: &Val) -> String {
        let mut s = String::new();
        self.dbg_struct(ty, v, &mut s);
        s
    }

    fn dbg_struct(&self, ty: &TypeDef, v: &Val, out: &mut String) {
        out.push_str(&ty.debug_name);
        if ty.fields.is_empty() {
            return;
        }
        out.push_str(" { ");
        for (i, (f, fv)) in ty.fields.iter().zip(v.fields()).enumerate() {
            if i > 0 {
                out.push_str(", ");
            }
            out.push_str(&f.name);
            out.push_str(": ");
            self.dbg_val(f, fv, out);
        }
        out.push_str(" }");
    }

    fn dbg_val(&self, f: &FieldDef, v: &Val, out: &mut String) {
        match v {
            Val::Int(i) => out.push_str(&i.to_string()),
            Val::Text(s) | Val::Hex(s) => out.push_str(&format!("{:?}", s)),
            Val::Bytes(b) => out.push_str(&format!("{:?}", b)),
            Val::Dt(y, mo, d, h, mi, s) => {
                let dt = chrono::NaiveDate::from_ymd_opt(*y, *mo, *d).and_then(|x| x.and_hms_opt(*h, *mi, *s));
                match dt {
                    Some(dt) => out.push_str(&format!("{:?}", dt)),
                    None => out.push_str("<invalid date>"),
                }
            }
            Val::None => out.push_str("None"),
            Val::Some(inner) => {
                out.push_str("Some(");
                self.dbg_val(f, inner, out);
                out.push(')');
            }
            Val::List(l) => {
                out.push('[');
                for (i, x) in l.iter().enumerate() {
                    if i > 0 {
                        out.push_str(", ");
                    }
                    self.dbg_val(f, x, out);
                }
                out.push(']');
            }
            Val::Struct(_) => {
                let Enc::Nested(n) = &f.enc else { panic!("struct value in scalar field") };
                self.dbg_struct(self.table.get(n), v, out);
            }
        }
    }
}

fn pad_left(mut p: Vec<u8>, n: usize) -> Result<Vec<u8>, RefErr> {
    if p.len() > n {
        return Err(RefErr::Unrepresentable(format!("{} bytes into a fixed field of {n}", p.len())));
    }
    let mut out = vec![0u8; n - p.len()];
    out.append(&mut p);
    Ok(out)
}

pub fn valid_date(y: i32, m: u32, d: u32) -> bool {
    if !(1..=12).contains(&m) || d < 1 {
        return false;
    }
    let leap = (y % 4 == 0 && y % 100 != 0) || y % 400 == 0;
    let dim = match m {
        1 | 3 | 5 | 7 | 8 | 10 | 12 => 31,
        4 | 6 | 9 | 11 => 30,
        _ => {
            if leap {
                29
            } else {
                28
            }
        }
    };
    d <= dim
}

// ---------------------------------------------------------------- structure map

/// Byte spans of one encoded group, for structure-aware mutation (C02, C13, C14).
#[derive(Clone, Debug)]
pub struct Span {
    /// dotted path of the field (with [i] for repeated elements)
    pub path: String,
    pub depth: usize,
    pub tag: Option<u16>,
    /// whole group: tag + prefix + payload
    pub start: usize,
    pub end: usize,
    pub tag_len: usize,
    /// offset and size of the length prefix (size 0: none)
    pub len_at: usize,
    pub len_size: usize,
    pub len_style: Len,
    pub payload_at: usize,
    pub enc: Enc,
    /// index of the enclosing span in the list (None: top level)
    pub parent: Option<usize>,
    pub mandatory: bool,
    pub repeated: bool,
}

impl<'t> Codec<'t> {
    /// Encodes like `encode` and additionally returns the structure map.
    pub fn encode_mapped(&self, ty: &TypeDef, v: &Val) -> Result<(Vec<u8>, Vec<Span>), RefErr> {
        let mut spans = vec![];
        let body_len = self.encode_struct(ty, v)?.len();
        let shift = match ty.ctrl {
            None => 0,
            Some(_) => 2 + apdu_len(body_len)?.len(),
        };
        let body = self.map_struct(ty, v, shift, &mut spans, "", 0, None)?;
        match ty.ctrl {
            None => Ok((body, spans)),
            Some((c, i)) => {
                let mut out = vec![c, i];
                out.extend(apdu_len(body.len())?);
                out.extend(body);
                Ok((out, spans))
            }
        }
    }

    #[allow(clippy::too_many_arguments)]
    fn map_struct(
        &self,
        ty: &TypeDef,
        v: &Val,
        base: usize,
        spans: &mut Vec<Span>,
        path: &str,
        depth: usize,
        parent: Option<usize>,
    ) -> Result<Vec<u8>, RefErr> {
        let mut out: Vec<u8> = vec![];
        for (f, fv) in ty.fields.iter().zip(v.fields()) {
            let items: Vec<(&Val, String)> = match (&f.wrap, fv) {
                (Wrap::Bare, v) => vec![(v, format!("{path}{}", f.name))],
                (Wrap::Opt, Val::None) => vec![],
                (Wrap::Opt, Val::Some(v)) => vec![(&**v, format!("{path}{}", f.name))],
                (Wrap::Vec, Val::List(l)) => l.iter().enumerate().map(|(i, v)| (v, format!("{path}{}[{i}]", f.name))).collect(),
                _ => return Err(RefErr::Malformed("wrap".into())),
            };
            for (v, p) in items {
                let g = self.enc_group(f, v)?;
                if g.is_empty() && f.enc == Enc::Raw {
                    continue;
                }
                let start = base + out.len();
                let tag_len = f.tag.map(|t| tag_bytes(t).len()).unwrap_or(0);
                let len_size = match &f.len {
                    Len::None | Len::Fixed(_) | Len::Temp => 0,
                    Len::LL => 2,
                    Len::LLL => 3,
                    Len::Ber => len_parse(&Len::Ber, &g[tag_len..]).map(|x| x.1).unwrap_or(1),
                };
                let idx = spans.len();
                spans.push(Span {
                    path: p.clone(),
                    depth,
                    tag: f.tag,
                    start,
                    end: start + g.len(),
                    tag_len,
                    len_at: start + tag_len,
                    len_size,
                    len_style: f.len.clone(),
                    payload_at: start + tag_len + len_size,
                    enc: f.enc.clone(),
                    parent,
                    mandatory: f.wrap == Wrap::Bare,
                    repeated: f.wrap == Wrap::Vec,
                });
                if let (Enc::Nested(n), Val::Struct(_)) = (&f.enc, v) {
                    let nested_len = self.encode_struct(self.table.get(n), v)?.len();
                    // fixed-size nested containers may be left padded
                    let pad = g.len() - tag_len - len_size - nested_len;
                    let inner = self.map_struct(
                        self.table.get(n),
                        v,
                        start + tag_len + len_size + pad,
                        spans,
                        &format!("{p}."),
                        depth + 1,
                        Some(idx),
                    )?;
                    debug_assert_eq!(inner.len(), nested_len);
                }
                out.extend(g);
            }
        }
        Ok(out)
    }
}
