//! Encoded tree: the structure map of a reference encoding turned into a tree of groups whose
//! length prefixes are recomputed when it is rendered. All structure-aware edits (permutation,
//! duplication, removal, foreign tags, length-prefix edits) are made on this tree.
use crate::codec::*;
use crate::layout::*;

#[derive(Clone, Debug)]
pub enum Body {
    Leaf(Vec<u8>),
    Kids(Vec<Node>),
}

#[derive(Clone, Debug)]
pub struct Node {
    pub path: String,
    pub tagnum: Option<u16>,
    pub tag: Vec<u8>,
    pub style: Len,
    pub body: Body,
    pub repeated: bool,
    pub mandatory: bool,
    pub enc: Enc,
    /// left padding inside a fixed-size container
    pub pad: usize,
    /// when set, these bytes are emitted instead of the computed length prefix
    pub prefix_override: Option<Vec<u8>>,
}

fn build_level(bytes: &[u8], spans: &[Span], parent: Option<usize>) -> Vec<Node> {
    let mut out = vec![];
    for (i, s) in spans.iter().enumerate() {
        if s.parent != parent {
            continue;
        }
        let kids = build_level(bytes, spans, Some(i));
        let has_kid_spans = spans.iter().any(|k| k.parent == Some(i));
        let is_nested = matches!(s.enc, Enc::Nested(_));
        let (body, pad) = if is_nested {
            let first = spans.iter().filter(|k| k.parent == Some(i)).map(|k| k.start).min();
            let pad = match (first, has_kid_spans) {
                (Some(f), true) => f - s.payload_at,
                _ => 0,
            };
            (Body::Kids(kids), pad)
        } else {
            (Body::Leaf(bytes[s.payload_at..s.end].to_vec()), 0)
        };
        out.push(Node {
            path: s.path.clone(),
            tagnum: s.tag,
            tag: bytes[s.start..s.start + s.tag_len].to_vec(),
            style: s.len_style.clone(),
            body,
            repeated: s.repeated,
            mandatory: s.mandatory,
            enc: s.enc.clone(),
            pad,
            prefix_override: None,
        });
    }
    out
}

pub fn build(bytes: &[u8], spans: &[Span]) -> Vec<Node> {
    build_level(bytes, spans, None)
}

pub fn render_nodes(nodes: &[Node]) -> Option<Vec<u8>> {
    let mut out = vec![];
    for n in nodes {
        out.extend(render_node(n)?);
    }
    Some(out)
}

pub fn render_node(n: &Node) -> Option<Vec<u8>> {
    let mut payload = match &n.body {
        Body::Leaf(b) => b.clone(),
        Body::Kids(k) => render_nodes(k)?,
    };
    let mut out = n.tag.clone();
    if let Some(p) = &n.prefix_override {
        out.extend(p);
        out.extend(payload);
        return Some(out);
    }
    match &n.style {
        Len::None | Len::Temp => {}
        Len::Fixed(sz) => {
            if payload.len() > *sz {
                return None;
            }
            if matches!(n.body, Body::Kids(_)) {
                let mut p = vec![0u8; sz - payload.len()];
                p.append(&mut payload);
                payload = p;
            }
        }
        Len::LL => out.extend(llvar(payload.len(), 2).ok()?),
        Len::LLL => out.extend(llvar(payload.len(), 3).ok()?),
        Len::Ber => out.extend(ber_len(payload.len()).ok()?),
    }
    out.extend(payload);
    Some(out)
}

/// Full wire form (APDU header recomputed for commands).
pub fn render(ty: &TypeDef, nodes: &[Node]) -> Option<Vec<u8>> {
    let body = render_nodes(nodes)?;
    match ty.ctrl {
        None => Some(body),
        Some((c, i)) => {
            let mut out = vec![c, i];
            out.extend(apdu_len(body.len()).ok()?);
            out.extend(body);
            Some(out)
        }
    }
}

/// Address of a level: indices from the top into nested `Kids`. The empty path is the top level.
pub type LevelPath = Vec<usize>;

/// All levels (lists of sibling groups) of the tree, with the information whether an ancestor
/// is an element of a repeated field.
pub fn levels(nodes: &[Node]) -> Vec<(LevelPath, bool)> {
    fn rec(nodes: &[Node], path: &mut Vec<usize>, under_repeated: bool, out: &mut Vec<(LevelPath, bool)>) {
        out.push((path.clone(), under_repeated));
        for (i, n) in nodes.iter().enumerate() {
            if let Body::Kids(k) = &n.body {
                path.push(i);
                rec(k, path, under_repeated || n.repeated, out);
                path.pop();
            }
        }
    }
    let mut out = vec![];
    rec(nodes, &mut vec![], false, &mut out);
    out
}

pub fn level<'a>(nodes: &'a [Node], path: &[usize]) -> &'a [Node] {
    let mut cur = nodes;
    for i in path {
        match &cur[*i].body {
            Body::Kids(k) => cur = k,
            _ => panic!("level path into a leaf"),
        }
    }
    cur
}

pub fn level_mut<'a>(nodes: &'a mut Vec<Node>, path: &[usize]) -> &'a mut Vec<Node> {
    let mut cur = nodes;
    for i in path {
        match &mut cur[*i].body {
            Body::Kids(k) => cur = k,
            _ => panic!("level path into a leaf"),
        }
    }
    cur
}

/// The tagged groups of a level as runs: (start index, length) of maximal runs of nodes with the
/// same tag (repeated fields form one run); positional nodes are skipped.
pub fn tagged_runs(level: &[Node]) -> Vec<(usize, usize)> {
    let mut runs = vec![];
    let mut i = 0;
    while i < level.len() {
        if level[i].tagnum.is_none() {
            i += 1;
            continue;
        }
        let mut j = i + 1;
        while j < level.len() && level[j].tagnum == level[i].tagnum && level[i].repeated {
            j += 1;
        }
        runs.push((i, j - i));
        i = j;
    }
    runs
}

/// every tag number used anywhere in the type (recursively), for choosing foreign tags
pub fn all_tags(table: &Table, ty: &TypeDef, out: &mut Vec<u16>) {
    for f in &ty.fields {
        if let Some(t) = f.tag {
            out.push(t);
        }
        if let Enc::Nested(n) = &f.enc {
            all_tags(table, table.get(n), out);
        }
        if f.enc == Enc::Dt {
            out.push(0x1f0e);
            out.push(0x1f0f);
        }
    }
}
