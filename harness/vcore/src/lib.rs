pub mod alloc;
pub mod codec;
pub mod dbx;
pub mod layout;
pub mod report;
pub mod tree;
pub mod values;
