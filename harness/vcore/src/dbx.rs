//! dbx: deviation-bounded exhaustive explorer (stateless, re-executing).
//!
//! A harness body is a deterministic function of the choices it asks for.
//! `any(n)`  : enumeration dimension, all n alternatives explored, free.
//! `dev(n)`  : environment answer with a default (0); any other alternative
//!             costs one deviation; explored while the budget allows.
//! The explorer walks the tree of choice vectors depth first by re-execution.
use crate::report::EXIT_MACHINERY;

#[derive(Clone, Debug, PartialEq)]
pub struct Choice {
    pub n: u32,
    pub taken: u32,
    pub dev: bool,
    pub label: &'static str,
}

pub struct Ctx {
    prefix: Vec<u32>,
    /// (n, dev, label) recorded for the prefix positions on the previous run; used to detect
    /// uncaptured nondeterminism.
    expect: Vec<(u32, bool, &'static str)>,
    pub trace: Vec<Choice>,
    pub deviations: u32,
    pub budget: u32,
    /// free-form log of the execution (filled by the harness), printed in replay files
    pub log: Vec<String>,
    pub logging: bool,
}

impl Ctx {
    pub fn new(prefix: Vec<u32>, expect: Vec<(u32, bool, &'static str)>, budget: u32) -> Self {
        Ctx { prefix, expect, trace: Vec::new(), deviations: 0, budget, log: Vec::new(), logging: false }
    }

    fn choose(&mut self, n: usize, dev: bool, label: &'static str) -> usize {
        assert!(n >= 1, "choice point {label} without alternatives");
        let pos = self.trace.len();
        let taken = if pos < self.prefix.len() {
            if let Some((en, ed, el)) = self.expect.get(pos) {
                if *en != n as u32 || *ed != dev || *el != label {
                    eprintln!(
                        "MACHINERY: replay divergence at choice {pos}: recorded ({en},{ed},{el}) now ({n},{dev},{label}) - uncaptured nondeterminism"
                    );
                    std::process::exit(EXIT_MACHINERY);
                }
            }
            let t = self.prefix[pos];
            if t as usize >= n {
                eprintln!("MACHINERY: replay choice {t} out of range {n} at {pos} ({label})");
                std::process::exit(EXIT_MACHINERY);
            }
            t
        } else {
            0
        };
        if dev && taken != 0 {
            self.deviations += 1;
        }
        self.trace.push(Choice { n: n as u32, taken, dev, label });
        if self.logging {
            self.log.push(format!("  choice[{pos}] {label}: {taken} of {n}{}", if dev { " (dev)" } else { "" }));
        }
        taken as usize
    }

    /// Enumeration dimension.
    pub fn any(&mut self, n: usize, label: &'static str) -> usize {
        self.choose(n, false, label)
    }

    /// Environment answer: 0 is the default, everything else costs a deviation.
    /// When the budget is exhausted the default is the only alternative (the
    /// point is still recorded so replays stay aligned).
    pub fn dev(&mut self, n: usize, label: &'static str) -> usize {
        self.choose(n, true, label)
    }

    pub fn say(&mut self, f: impl FnOnce() -> String) {
        if self.logging {
            self.log.push(f());
        }
    }

    pub fn choices(&self) -> Vec<u32> {
        self.trace.iter().map(|c| c.taken).collect()
    }
}

#[derive(Default, Debug, Clone)]
pub struct ExploreStats {
    pub executions: u64,
    pub transitions: u64,
    pub max_depth: u64,
    pub max_deviations: u64,
    pub capped: bool,
}

/// Explore every execution of `body` with at most `budget` deviations.
/// `on_exec` is called after every execution with the finished context.
/// `max_exec` caps the number of executions (reported as capped).
pub fn explore<B>(budget: u32, max_exec: u64, body: B) -> ExploreStats
where
    B: FnMut(&mut Ctx),
{
    explore_from(&[], budget, max_exec, body)
}

/// Like `explore`, but every execution starts with the choices `start`, which are never varied
/// (exploration of the subtree below a recorded execution prefix).
pub fn explore_from<B>(start: &[u32], budget: u32, max_exec: u64, mut body: B) -> ExploreStats
where
    B: FnMut(&mut Ctx),
{
    let frozen = start.len();
    let mut stats = ExploreStats::default();
    let mut prefix: Vec<u32> = start.to_vec();
    let mut expect: Vec<(u32, bool, &'static str)> = vec![];
    loop {
        let plen = prefix.len();
        let mut ctx = Ctx::new(prefix, expect, budget);
        body(&mut ctx);
        stats.executions += 1;
        // new edges: everything from the last replayed position on (the last prefix element is
        // the newly taken alternative)
        let new_edges = if plen == 0 { ctx.trace.len() } else { ctx.trace.len() + 1 - plen.min(ctx.trace.len() + 1) };
        stats.transitions += new_edges as u64;
        stats.max_depth = stats.max_depth.max(ctx.trace.len() as u64);
        stats.max_deviations = stats.max_deviations.max(ctx.deviations as u64);
        if ctx.trace.len() < plen {
            eprintln!("MACHINERY: execution shorter than its replay prefix ({} < {plen})", ctx.trace.len());
            std::process::exit(EXIT_MACHINERY);
        }
        // find the right-most choice that can still be advanced within the budget
        let tr = &ctx.trace;
        let mut devs_before: Vec<u32> = Vec::with_capacity(tr.len());
        let mut d = 0;
        for c in tr.iter() {
            devs_before.push(d);
            if c.dev && c.taken != 0 {
                d += 1;
            }
        }
        let mut next: Option<usize> = None;
        for i in (frozen..tr.len()).rev() {
            let c = &tr[i];
            if c.taken + 1 < c.n {
                if c.dev && c.taken == 0 && devs_before[i] + 1 > budget {
                    continue;
                }
                next = Some(i);
                break;
            }
        }
        let Some(i) = next else { break };
        if stats.executions >= max_exec {
            stats.capped = true;
            break;
        }
        prefix = tr[..i].iter().map(|c| c.taken).collect();
        prefix.push(tr[i].taken + 1);
        expect = tr[..=i].iter().map(|c| (c.n, c.dev, c.label)).collect();
    }
    stats
}

/// Re-run one recorded execution (replay files, double-execution checks).
pub fn replay<B>(choices: &[u32], budget: u32, logging: bool, mut body: B) -> Ctx
where
    B: FnMut(&mut Ctx),
{
    let mut ctx = Ctx::new(choices.to_vec(), vec![], budget);
    ctx.logging = logging;
    body(&mut ctx);
    ctx
}
