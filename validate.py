#!/opt/veriftools/pyvenv/bin/python
import json, jsonschema, sys, glob
m = json.load(open('/verif/MANIFEST.json'))
jsonschema.validate(m, json.load(open('/root/.vp/MANIFEST.schema.json')))
es = json.load(open('/root/.vp/EVIDENCE.schema.json'))
bad = 0
for c in m['checks']:
    try:
        jsonschema.validate(json.load(open(c['evidence_file'])), es)
    except Exception as e:
        bad += 1; print('EVIDENCE INVALID', c['property_id'], str(e)[:300])
ids = {json.loads(l)['id'] for l in open('/verif/properties.jsonl')}
claimed = {c['property_id'] for c in m['checks']}; na = {x['property_id'] for x in m.get('not_applicable', [])}
assert claimed | na == ids and not (claimed & na), (claimed ^ ids, claimed & na)
print('manifest valid; claimed', len(claimed), 'not_applicable', len(na), 'bad evidence', bad)
sys.exit(1 if bad else 0)
