#!/usr/bin/env python3
"""Writes MANIFEST.json from the list of checks that exist (keeps it valid at all times)."""
import json, subprocess
props = [json.loads(l) for l in open('/verif/properties.jsonl')]
hook_commits = subprocess.run(['git','-C','/repo','log','--format=%H %s'],capture_output=True,text=True).stdout.splitlines()
hooks = [l.split()[0] for l in hook_commits if 'verif hook' in l]

# id -> (technique, level text, level_note, design_ref)
CHECKS = json.load(open('/verif/checks.json'))
checks = []
na = []
for p in props:
    i = p['id']
    if i in CHECKS:
        c = CHECKS[i]
        checks.append({
            "property_id": i,
            "quick_cmd": f"./check {i} quick",
            "thorough_cmd": f"./check {i} thorough",
            "evidence_file": f"/verif/evidence/{i}.json",
            "replay_cmd_template": f"./check {i} --replay {{path}}",
            "engine": c.get("engine", "zvtmc"),
            "level_claimed": {"category": "model_checking", "text": c["text"], "design_ref": c["design_ref"]},
            "level_note": c["note"],
            "technique": c["technique"],
        })
    else:
        na.append({"property_id": i, "reason": "check not built yet in this round (planned in DESIGN.md section 6); nothing is claimed for it until its harness exists"})
m = {
    "version": 1,
    "setup_cmd": "cd /verif/harness && CARGO_NET_OFFLINE=true cargo build --release --offline -p zvtmc -p genstructs 2>&1 | tail -3",
    "hooks": {
        "guard": "cargo feature zvt_verif on crate zvt_feig_terminal",
        "enable": "the harness depends on /repo/zvt_feig_terminal with features = [\"zvt_verif\"]; every ./check rebuilds it from /repo's working tree",
        "baseline_off_cmd": "cd /repo && cargo test --workspace --no-fail-fast --offline",
        "source_commits": hooks,
        "add_only": False,
    },
    "engines": [
        {"name": "zvtmc", "path": "/verif/harness/zvtmc", "serves_properties": [c["property_id"] for c in checks if c["engine"]=="zvtmc"],
         "kind_free_text": "bounded-exhaustive explorer of the real code: dbx (deviation-bounded stateless search over environment choices), reference codec interpreting an independent layout table, simulated terminal under tokio's paused clock"},
        {"name": "genstructs", "path": "/verif/harness/genstructs", "serves_properties": [c["property_id"] for c in checks if c["engine"]=="genstructs"],
         "kind_free_text": "enumerates struct definitions over the derive attribute grammar at build time, compiles them with the real macro and compares with the reference codec"},
    ],
    "checks": checks,
    "not_applicable": na,
    "notes": "All checks decide by exhaustive enumeration of a stated finite space on the real code (no sampling; VERIF_SEED only rotates visiting order where used). Exit 2 = machinery error (no verdict). Hook: one cfg attribute line in zvt_feig_terminal/src/stream.rs was reworded (add_only=false), everything else is additive. Defects found on the pinned tree were repaired by separate 'fix:' commits in /repo, listed in /verif/known_findings.json as 'fixed' records.",
}
json.dump(m, open('/verif/MANIFEST.json','w'), indent=1)
print("checks:", [c["property_id"] for c in checks], "not_applicable:", len(na))
